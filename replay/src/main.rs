//! Replay / bounded-search tool of the verification machinery.
//!
//!   verif-replay search <mode> [--seed N] [--limit K]     modes: cek budget builtins nopanic debruijn corpus
//!   verif-replay replay <file.json>
//!
//! `search` runs concrete inputs through the REAL code in /repo (linked as a path dependency) and through
//! an executable specification (refcek.rs, spec functions below, the Plutus conformance expectations
//! shipped with the repository).  The first disagreements are printed as `FAILING-INPUT {json}` lines.
//! This is a BOUNDED check (bounds printed in the `BOUNDS` line); it is used (a) to attach a concrete
//! failing input to an obligation the verifier no longer discharges and (b) as a labelled bounded
//! stand-in for functions outside the verifier's reach.  It never counts as a proof.
mod refcek;

use num_bigint::BigInt;
use num_integer::Integer;
use pallas_primitives::conway::Language;
use refcek::{B, K, T};
use std::rc::Rc;
use uplc::{
    ast::{Constant, DeBruijn, Name, NamedDeBruijn, Program, Term, Type},
    builtins::DefaultFunction,
    machine::{
        cost_model::{CostModel, ExBudget},
        runtime::BuiltinSemantics,
        value::Value,
        Machine,
    },
};

thread_local! { static LAST: std::cell::RefCell<String> = std::cell::RefCell::new(String::new()); }
/// remember what is being processed, so that a panic of the real code OUTSIDE the guarded calls (e.g. while an input is
/// pretty-printed) is still reported with the input that triggered it
fn set_last(s: String) { LAST.with(|l| *l.borrow_mut() = s); }

// ------------------------------------------------------------------ small deterministic PRNG
struct Rng(u64);
impl Rng {
    fn next(&mut self) -> u64 {
        self.0 ^= self.0 << 13;
        self.0 ^= self.0 >> 7;
        self.0 ^= self.0 << 17;
        self.0
    }
    fn below(&mut self, n: u64) -> u64 {
        self.next() % n
    }
}

// ------------------------------------------------------------------ term enumeration
fn leaves(depth: usize, open: bool) -> Vec<T> {
    let mut v = vec![
        T::Con(K::Int(0)),
        T::Con(K::Int(1)),
        T::Con(K::Bool(true)),
        T::Con(K::Unit),
        T::Error,
        T::Builtin(B::AddInteger),
        T::Builtin(B::IfThenElse),
    ];
    let max = if open { depth + 1 } else { depth };
    for i in 1..=max {
        v.push(T::Var(i));
    }
    if open {
        v.push(T::Var(0));
        v.push(T::Var(depth + 5));
    }
    v
}

/// all terms of exactly `size` nodes under `depth` binders
fn terms(size: usize, depth: usize, open: bool, memo: &mut std::collections::HashMap<(usize, usize), Rc<Vec<T>>>) -> Rc<Vec<T>> {
    if let Some(r) = memo.get(&(size, depth)) {
        return r.clone();
    }
    let mut out = vec![];
    if size == 1 {
        out = leaves(depth, open);
        out.push(T::Constr(0, vec![]));
    } else {
        let sub = terms(size - 1, depth + 1, open, memo);
        for b in sub.iter() {
            out.push(T::Lam(Rc::new(b.clone())));
        }
        let sub = terms(size - 1, depth, open, memo);
        for b in sub.iter() {
            out.push(T::Delay(Rc::new(b.clone())));
            out.push(T::Force(Rc::new(b.clone())));
            out.push(T::Constr(1, vec![b.clone()]));
            out.push(T::Case(Rc::new(b.clone()), vec![]));
        }
        for l in 1..size - 1 {
            let r = size - 1 - l;
            let ls = terms(l, depth, open, memo);
            let rs = terms(r, depth, open, memo);
            for a in ls.iter() {
                for b in rs.iter() {
                    out.push(T::App(Rc::new(a.clone()), Rc::new(b.clone())));
                    if size <= 4 {
                        out.push(T::Constr(0, vec![a.clone(), b.clone()]));
                        out.push(T::Case(Rc::new(a.clone()), vec![b.clone()]));
                    }
                }
            }
        }
    }
    let r = Rc::new(out);
    memo.insert((size, depth), r.clone());
    r
}

fn random_term(rng: &mut Rng, size: usize, depth: usize, open: bool) -> T {
    if size <= 1 {
        let ls = leaves(depth, open);
        let mut ls = ls;
        ls.push(T::Con(K::ListInt(vec![7, 8])));
        ls.push(T::Con(K::ListInt(vec![])));
        ls.push(T::Con(K::PairIntBool(3, false)));
        ls.push(T::Con(K::Bool(false)));
        ls.push(T::Con(K::Int(2)));
        ls.push(T::Builtin(B::LessThanInteger));
        return ls[rng.below(ls.len() as u64) as usize].clone();
    }
    match rng.below(10) {
        0 | 1 => T::Lam(Rc::new(random_term(rng, size - 1, depth + 1, open))),
        2 => T::Delay(Rc::new(random_term(rng, size - 1, depth, open))),
        3 => T::Force(Rc::new(random_term(rng, size - 1, depth, open))),
        4 | 5 | 6 => {
            let l = 1 + rng.below((size - 1) as u64) as usize;
            let l = l.min(size - 2).max(1);
            T::App(Rc::new(random_term(rng, l, depth, open)), Rc::new(random_term(rng, size - 1 - l, depth, open)))
        }
        7 => {
            let n = 1 + rng.below(3) as usize;
            let each = ((size - 1) / n).max(1);
            T::Constr(rng.below(3) as usize, (0..n).map(|_| random_term(rng, each, depth, open)).collect())
        }
        _ => {
            let n = 1 + rng.below(3) as usize;
            let each = ((size - 1) / (n + 1)).max(1);
            T::Case(Rc::new(random_term(rng, each, depth, open)), (0..n).map(|_| random_term(rng, each, depth, open)).collect())
        }
    }
}

// ------------------------------------------------------------------ conversions ref <-> real
fn k_to_constant(k: &K) -> Constant {
    match k {
        K::Int(i) => Constant::Integer(BigInt::from(*i)),
        K::Bool(b) => Constant::Bool(*b),
        K::Unit => Constant::Unit,
        K::ListInt(xs) => Constant::ProtoList(Type::Integer, xs.iter().map(|x| Constant::Integer(BigInt::from(*x))).collect()),
        K::PairIntBool(a, b) => Constant::ProtoPair(Type::Integer, Type::Bool, Rc::new(Constant::Integer(BigInt::from(*a))), Rc::new(Constant::Bool(*b))),
    }
}
fn b_to_fun(b: B) -> DefaultFunction {
    match b {
        B::AddInteger => DefaultFunction::AddInteger,
        B::LessThanInteger => DefaultFunction::LessThanInteger,
        B::IfThenElse => DefaultFunction::IfThenElse,
    }
}
fn nd(i: usize) -> Rc<NamedDeBruijn> {
    Rc::new(NamedDeBruijn { text: "i".to_string(), index: DeBruijn::new(i) })
}
fn to_real(t: &T) -> Term<NamedDeBruijn> {
    match t {
        T::Var(i) => Term::Var(nd(*i)),
        T::Lam(b) => Term::Lambda { parameter_name: nd(0), body: Rc::new(to_real(b)) },
        T::App(f, a) => Term::Apply { function: Rc::new(to_real(f)), argument: Rc::new(to_real(a)) },
        T::Delay(b) => Term::Delay(Rc::new(to_real(b))),
        T::Force(b) => Term::Force(Rc::new(to_real(b))),
        T::Con(k) => Term::Constant(Rc::new(k_to_constant(k))),
        T::Error => Term::Error,
        T::Builtin(b) => Term::Builtin(b_to_fun(*b)),
        T::Constr(tag, fs) => Term::Constr { tag: *tag, fields: fs.iter().map(to_real).collect() },
        T::Case(s, bs) => Term::Case { constr: Rc::new(to_real(s)), branches: bs.iter().map(to_real).collect() },
    }
}
fn to_real_db(t: &T) -> Term<DeBruijn> {
    match t {
        T::Var(i) => Term::Var(Rc::new(DeBruijn::new(*i))),
        T::Lam(b) => Term::Lambda { parameter_name: Rc::new(DeBruijn::new(0)), body: Rc::new(to_real_db(b)) },
        T::App(f, a) => Term::Apply { function: Rc::new(to_real_db(f)), argument: Rc::new(to_real_db(a)) },
        T::Delay(b) => Term::Delay(Rc::new(to_real_db(b))),
        T::Force(b) => Term::Force(Rc::new(to_real_db(b))),
        T::Con(k) => Term::Constant(Rc::new(k_to_constant(k))),
        T::Error => Term::Error,
        T::Builtin(b) => Term::Builtin(b_to_fun(*b)),
        T::Constr(tag, fs) => Term::Constr { tag: *tag, fields: fs.iter().map(to_real_db).collect() },
        T::Case(s, bs) => Term::Case { constr: Rc::new(to_real_db(s)), branches: bs.iter().map(to_real_db).collect() },
    }
}
fn show(t: &T) -> String {
    to_real(t).to_pretty().split_whitespace().collect::<Vec<_>>().join(" ")
}

// ------------------------------------------------------------------ running the real machine
#[derive(Clone, Copy, Debug)]
struct Variant {
    lang: u8,
    pv: u16,
}
const VARIANTS: [Variant; 6] = [
    Variant { lang: 3, pv: 11 },
    Variant { lang: 3, pv: 10 },
    Variant { lang: 3, pv: 9 },
    Variant { lang: 2, pv: 11 },
    Variant { lang: 2, pv: 9 },
    Variant { lang: 1, pv: 8 },
];
fn language(v: Variant) -> Language {
    match v.lang {
        1 => Language::PlutusV1,
        2 => Language::PlutusV2,
        _ => Language::PlutusV3,
    }
}
struct Run {
    result: Result<Term<NamedDeBruijn>, String>,
    spent: ExBudget,
    remaining: ExBudget,
    panicked: Option<String>,
}
fn run_real(term: Term<NamedDeBruijn>, v: Variant, costs: Option<CostModel>, budget: ExBudget, slippage: u32) -> Run {
    let r = std::panic::catch_unwind(std::panic::AssertUnwindSafe(|| {
        let lang = language(v);
        let cm = costs.unwrap_or_else(|| CostModel::default_for_language_and_protocol(&lang, v.pv));
        let mut m = Machine::new_with_protocol(lang, v.pv, cm, budget, slippage);
        let r = m.run(term);
        (r.map_err(|e| format!("{e}").lines().next().unwrap_or("").to_string()), m.ex_budget)
    }));
    match r {
        Ok((result, remaining)) => Run { result, spent: ExBudget { mem: budget.mem.saturating_sub(remaining.mem), cpu: budget.cpu.saturating_sub(remaining.cpu) }, remaining, panicked: None },
        Err(p) => {
            let msg = p.downcast_ref::<String>().cloned().or_else(|| p.downcast_ref::<&str>().map(|s| s.to_string())).unwrap_or_default();
            Run { result: Err("panic".into()), spent: ExBudget { mem: 0, cpu: 0 }, remaining: budget, panicked: Some(msg) }
        }
    }
}
const BIG: ExBudget = ExBudget { mem: 1_000_000_000_000, cpu: 1_000_000_000_000_000 };

fn fail(mode: &str, what: &str, input: serde_json::Value, expected: String, got: String) -> serde_json::Value {
    let j = serde_json::json!({"mode": mode, "what": what, "input": input, "expected": expected, "got": got});
    println!("FAILING-INPUT {}", j);
    j
}

// ------------------------------------------------------------------ mode: cek  (C03)
fn check_cek_term(t: &T, v: Variant, slippage: u32) -> Option<serde_json::Value> {
    let e = v.lang == 3 && v.pv >= 11;
    let expected = refcek::eval(t, e, 2_000);
    if let refcek::Outcome::Unknown = expected {
        return None;
    }
    let real = run_real(to_real(t), v, None, BIG, slippage);
    let input = serde_json::json!({"term": show(t), "language": v.lang, "protocol": v.pv, "slippage": slippage});
    if let Some(p) = &real.panicked {
        return Some(fail("cek", "evaluator panicked", input, "a value or an error".into(), format!("panic: {p}")));
    }
    match (&expected, &real.result) {
        (refcek::Outcome::Value(et, _), Ok(rt)) => {
            let er = to_real(et);
            if er != *rt {
                return Some(fail("cek", "evaluation result differs from the CEK specification", input, er.to_pretty(), rt.to_pretty()));
            }
        }
        (refcek::Outcome::Fail(_), Err(_)) => {}
        (refcek::Outcome::Value(et, _), Err(e)) => {
            return Some(fail("cek", "evaluator fails where the CEK specification returns a value", input, to_real(et).to_pretty(), format!("error: {e}")));
        }
        (refcek::Outcome::Fail(_), Ok(rt)) => {
            return Some(fail("cek", "evaluator returns a value where the CEK specification fails", input, "failure".into(), rt.to_pretty()));
        }
        _ => {}
    }
    None
}

fn mode_cek(seed: u64, limit: usize, open: bool) -> Vec<serde_json::Value> {
    let mut fails = vec![];
    let mut memo = std::collections::HashMap::new();
    let mut n = 0u64;
    let max_size = 5;
    'outer: for size in 1..=max_size {
        let ts = terms(size, 0, open, &mut memo);
        for t in ts.iter() {
            if !open && !refcek::closed(t, 0) {
                continue;
            }
            for v in [VARIANTS[0], VARIANTS[1], VARIANTS[3], VARIANTS[5]] {
                n += 1;
                if let Some(f) = check_cek_term(t, v, 200) {
                    fails.push(f);
                    if fails.len() >= limit {
                        break 'outer;
                    }
                }
            }
        }
    }
    let mut rng = Rng(0x9E3779B97F4A7C15 ^ seed.wrapping_mul(0x2545F4914F6CDD1D) | 1);
    let mut m = 0;
    while fails.len() < limit && m < 60_000 {
        let size = 4 + rng.below(14) as usize;
        let t = random_term(&mut rng, size, 0, open);
        if !open && !refcek::closed(&t, 0) {
            continue;
        }
        m += 1;
        let v = VARIANTS[rng.below(6) as usize];
        if let Some(f) = check_cek_term(&t, v, [1, 2, 3, 200][rng.below(4) as usize]) {
            fails.push(f);
        }
    }
    println!("BOUNDS mode=cek open={open} exhaustive: all terms of size<={max_size} over 7 leaves+vars, 4 variants ({n} runs); random: {m} terms of size 4..17, 6 variants, seed {seed}");
    fails
}

// ------------------------------------------------------------------ mode: budget (C05)
fn step_cost(v: Variant, s: &refcek::Steps) -> ExBudget {
    // machine step costs of the ledger cost models: 16000 cpu / 100 mem per step, start-up 100/100;
    // constr and case are unavailable (sentinel 30000000000) before PlutusV3
    let unit_cpu = 16000i64;
    let unit_mem = 100i64;
    let plain = (s.constant + s.var + s.lambda + s.apply + s.delay + s.force + s.builtin) as i64;
    let cc = (s.constr + s.case) as i64;
    let (cc_cpu, cc_mem) = if v.lang == 3 { (unit_cpu, unit_mem) } else { (30000000000, 30000000000) };
    ExBudget { cpu: 100 + plain * unit_cpu + cc * cc_cpu, mem: 100 + plain * unit_mem + cc * cc_mem }
}

/// the repository's PlutusV3 cost-parameter vector with every machine-step parameter replaced by a distinct prime-ish
/// price; returns the model and the (cpu, mem) price of constant, var, lambda, apply, delay, force, builtin, constr, case, startup
fn priced_cost_model(v: Variant) -> Option<(CostModel, [(i64, i64); 10])> {
    use uplc::machine::cost_model::ParamName;
    let (_, mut vec3) = parse_cost_vectors();
    if vec3.is_empty() || vec3.len() > ParamName::V3.len() { return None; }
    let names = ["CekConstCost", "CekVarCost", "CekLamCost", "CekApplyCost", "CekDelayCost", "CekForceCost", "CekBuiltinCost", "CekConstrCost", "CekCaseCost", "CekStartupCost"];
    let mut prices = [(0i64, 0i64); 10];
    for (k, nm) in names.iter().enumerate() {
        let (cpu, mem) = (1009 + 97 * k as i64, 11 + 3 * k as i64);
        prices[k] = (cpu, mem);
        for (suffix, val) in [("_exBudgetCPU", cpu), ("_exBudgetMemory", mem)] {
            let want = format!("{nm}{suffix}");
            let ix = ParamName::V3.iter().position(|p| format!("{p:?}") == want)?;
            if ix >= vec3.len() { return None; }
            vec3[ix] = val;
        }
    }
    Some((uplc::machine::cost_model::initialize_cost_model_with_protocol(&language(v), v.pv, &vec3), prices))
}

fn check_budget_term(t: &T, v: Variant) -> Option<serde_json::Value> {
    let e = v.lang == 3 && v.pv >= 11;
    let expected = refcek::eval(t, e, 2_000);
    let (steps, ok) = match &expected {
        refcek::Outcome::Value(_, s) => (*s, true),
        refcek::Outcome::Fail(s) => (*s, false),
        refcek::Outcome::Unknown => return None,
    };
    let input = |sl: u32, b: &ExBudget| serde_json::json!({"term": show(t), "language": v.lang, "protocol": v.pv, "slippage": sl, "budget": {"cpu": b.cpu, "mem": b.mem}});
    let base = run_real(to_real(t), v, None, BIG, 1);
    if base.panicked.is_some() {
        return None; // reported by nopanic
    }
    // (1) exact figure for builtin-free successful runs: start-up + step costs
    // (constr/case are not available before PlutusV3: their step cost there is not part of the claim)
    if ok && steps.builtin_calls == 0 && base.result.is_ok() && (v.lang == 3 || steps.constr + steps.case == 0) {
        let want = step_cost(v, &steps);
        if base.spent != want {
            return Some(fail("budget", "charged units differ from start-up + sum of step costs", input(1, &BIG), format!("{want:?}"), format!("{:?}", base.spent)));
        }
    }
    // (1b) the same with a cost-parameter vector in which every machine step has its OWN price: each step kind is charged
    // the parameter the ledger names after it (cekVarCost, cekCaseCost, ...), start-up once
    if ok && steps.builtin_calls == 0 && base.result.is_ok() && v.lang == 3 {
        if let Some((cm, prices)) = priced_cost_model(v) {
            let r = run_real(to_real(t), v, Some(cm), BIG, 1);
            if r.result.is_ok() {
                let counts = [steps.constant, steps.var, steps.lambda, steps.apply, steps.delay, steps.force, steps.builtin, steps.constr, steps.case];
                let mut want = ExBudget { cpu: prices[9].0, mem: prices[9].1 };
                for (k, c) in counts.iter().enumerate() { want.cpu += *c as i64 * prices[k].0; want.mem += *c as i64 * prices[k].1; }
                if r.spent != want {
                    return Some(fail("budget", "with distinct prices per machine step, the charged units differ from start-up + sum over steps of that step kind's own parameter", input(1, &BIG), format!("{want:?}"), format!("{:?}", r.spent)));
                }
            }
        }
    }
    // (2) the figure does not depend on batching
    for sl in [2u32, 3, 5, 7, 200] {
        let r = run_real(to_real(t), v, None, BIG, sl);
        if r.result.is_ok() != base.result.is_ok() || (r.result.is_ok() && r.spent != base.spent) {
            return Some(fail("budget", "cost or verdict depends on the batching interval (slippage)", input(sl, &BIG),
                format!("as with slippage 1: ok={} spent={:?}", base.result.is_ok(), base.spent), format!("ok={} spent={:?}", r.result.is_ok(), r.spent)));
        }
    }
    // (3) budget B succeeds iff unlimited cost <= B in both dimensions; never Ok with negative remainder
    if base.result.is_ok() {
        let c = base.spent;
        for sl in [1u32, 3, 4, 200] {
            let r = run_real(to_real(t), v, None, c, sl);
            if r.result.is_err() {
                return Some(fail("budget", "fails for budget reasons although the budget equals the cost", input(sl, &c), "Ok".into(), format!("{:?}", r.result.err())));
            }
            for b in [ExBudget { cpu: c.cpu - 1, mem: c.mem }, ExBudget { cpu: c.cpu, mem: c.mem - 1 }] {
                let r = run_real(to_real(t), v, None, b, sl);
                if r.result.is_ok() {
                    return Some(fail("budget", "succeeds with a budget one unit short (negative remaining budget)", input(sl, &b), "out-of-budget error".into(), format!("Ok, remaining {:?}", r.remaining)));
                }
            }
        }
    }
    None
}

fn mode_budget(seed: u64, limit: usize) -> Vec<serde_json::Value> {
    let mut fails = vec![];
    let mut memo = std::collections::HashMap::new();
    let mut n = 0;
    'outer: for size in 1..=4 {
        let ts = terms(size, 0, false, &mut memo);
        for t in ts.iter() {
            if !refcek::closed(t, 0) {
                continue;
            }
            for v in [VARIANTS[0], VARIANTS[3]] {
                n += 1;
                if let Some(f) = check_budget_term(t, v) {
                    fails.push(f);
                    if fails.len() >= limit {
                        break 'outer;
                    }
                }
            }
        }
    }
    let mut rng = Rng(0xD1B54A32D192ED03 ^ seed.wrapping_mul(0x9E3779B97F4A7C15) | 1);
    let mut m = 0;
    while fails.len() < limit && m < 4_000 {
        let size = 5 + rng.below(20) as usize;
        let t = random_term(&mut rng, size, 0, false);
        if !refcek::closed(&t, 0) {
            continue;
        }
        m += 1;
        if let Some(f) = check_budget_term(&t, VARIANTS[rng.below(6) as usize]) {
            fails.push(f);
        }
    }
    println!("BOUNDS mode=budget exhaustive: closed terms of size<=4, 2 variants ({n} terms); random: {m} closed terms of size 5..24, 6 variants; slippages 1,2,3,4,5,7,200; budgets cost, cost-1cpu, cost-1mem; seed {seed}");
    fails
}

// ------------------------------------------------------------------ mode: corpus (C03 results, C05 budgets) — the Plutus conformance expectations
fn parse_cost_vectors() -> (Vec<i64>, Vec<i64>) {
    // the two cost-parameter vectors the repository's own conformance test uses (kept in sync by reading them from there)
    let src = std::fs::read_to_string("/repo/crates/uplc/tests/conformance.rs").unwrap_or_default();
    let grab = |from: usize| -> Vec<i64> {
        let rest = &src[from..];
        let a = rest.find("&[").map(|i| i + 2).unwrap_or(0);
        let b = rest[a..].find(']').unwrap_or(0) + a;
        rest[a..b].split(',').filter_map(|x| x.trim().parse::<i64>().ok()).collect()
    };
    let v3 = src.find("const V3_PV11_COSTS").and_then(|i| src[i..].find("= &[").map(|j| i + j)).map(grab).unwrap_or_default();
    let v2 = src.find("fn plutus_conformance_tests_v2").map(grab).unwrap_or_default();
    (v2, v3)
}

fn walk(dir: &std::path::Path, out: &mut Vec<std::path::PathBuf>) {
    if let Ok(rd) = std::fs::read_dir(dir) {
        let mut es: Vec<_> = rd.filter_map(|e| e.ok()).collect();
        es.sort_by_key(|e| e.path());
        for e in es {
            let p = e.path();
            if p.is_dir() {
                walk(&p, out);
            } else if p.extension().and_then(|x| x.to_str()) == Some("uplc") {
                out.push(p);
            }
        }
    }
}

fn mode_corpus(_seed: u64, limit: usize) -> Vec<serde_json::Value> {
    let (v2c, v3c) = parse_cost_vectors();
    let mut fails = vec![];
    let mut n = 0;
    let mut nb = 0;
    for (root, lang, costs, canonical) in [("/repo/crates/uplc/test_data/conformance/v3", Language::PlutusV3, &v3c, true), ("/repo/crates/uplc/test_data/conformance/v2", Language::PlutusV2, &v2c, false)] {
        if costs.is_empty() {
            println!("BOUNDS mode=corpus cost vector for {root} not found: skipped");
            continue;
        }
        let mut files = vec![];
        walk(std::path::Path::new(root), &mut files);
        for f in files {
            if fails.len() >= limit {
                break;
            }
            let code = match std::fs::read_to_string(&f) {
                Ok(c) => c,
                Err(_) => continue,
            };
            let prog = if canonical { uplc::parser::program_with_canonical_value_literals(&code) } else { uplc::parser::program(&code) };
            let Ok(prog) = prog else { continue };
            let Ok(prog): Result<Program<NamedDeBruijn>, _> = prog.try_into() else { continue };
            let bexp = std::fs::read_to_string(f.with_extension("uplc.budget.expected")).unwrap_or_default();
            let want_budget = {
                let num = |key: &str| bexp.find(key).and_then(|i| bexp[i + key.len()..].trim_start().split(|c: char| !c.is_ascii_digit() && c != '-').next().and_then(|x| x.parse::<i64>().ok()));
                match (num("cpu:"), num("mem:")) {
                    (Some(c), Some(m)) => Some(ExBudget { cpu: c, mem: m }),
                    _ => None,
                }
            };
            n += 1;
            let mut spent_by_slippage = vec![];
            for sl in [200u32, 1, 3] {
                let term = prog.term.clone();
                let lang2 = lang.clone();
                let costs2 = costs.clone();
                let r = std::panic::catch_unwind(std::panic::AssertUnwindSafe(move || {
                    let cm = uplc::machine::cost_model::initialize_cost_model_with_protocol(&lang2, 11, &costs2);
                    let mut m = Machine::new_with_protocol(lang2, 11, cm, BIG, sl);
                    let r = m.run(term);
                    (r.is_ok(), ExBudget { mem: BIG.mem.saturating_sub(m.ex_budget.mem), cpu: BIG.cpu.saturating_sub(m.ex_budget.cpu) })
                }));
                let input = serde_json::json!({"file": f.to_string_lossy(), "slippage": sl});
                match r {
                    Err(_) => {
                        fails.push(fail("corpus", "evaluator panicked on a conformance program", input, "no panic".into(), "panic".into()));
                        break;
                    }
                    Ok((ok, spent)) => {
                        if ok {
                            // the v2 expectation files were recorded under an older machine cost model (23000 cpu per
                            // step): only the v3 budgets are comparable with the cost vector the repository uses
                            if let Some(w) = want_budget.filter(|_| canonical) {
                                if sl == 200 {
                                    nb += 1;
                                }
                                if spent != w {
                                    fails.push(fail("corpus", "charged units differ from the Plutus conformance budget", input, format!("{w:?}"), format!("{spent:?}")));
                                    break;
                                }
                            }
                        } else if want_budget.is_some() && canonical {
                            fails.push(fail("corpus", "evaluation fails where the Plutus conformance suite expects a budget (success)", input, "success".into(), "failure".into()));
                            break;
                        }
                        if let Some((ok0, spent0)) = spent_by_slippage.first().cloned() {
                            if ok0 != ok || (ok && spent0 != spent) {
                                fails.push(fail("corpus", "cost or verdict depends on the batching interval (slippage)", input, format!("ok={ok0} spent={spent0:?}"), format!("ok={ok} spent={spent:?}")));
                                break;
                            }
                        }
                        spent_by_slippage.push((ok, spent));
                    }
                }
            }
        }
    }
    println!("BOUNDS mode=corpus {n} conformance programs (v2+v3, protocol 11), {nb} with an expected budget, slippages 200,1,3");
    fails
}

// ------------------------------------------------------------------ mode: builtins (C04)
fn ints() -> Vec<BigInt> {
    let mut v: Vec<BigInt> = vec![];
    for i in [-3i64, -2, -1, 0, 1, 2, 3, 7, 8, 9, 127, 128, 255, 256, 257, -255, -256, -257, 65535, 65536] {
        v.push(i.into());
    }
    for sh in [31u32, 32, 63, 64, 65, 127, 128, 129, 200] {
        let p = BigInt::from(1) << sh;
        v.push(p.clone());
        v.push(&p - 1);
        v.push(&p + 1);
        v.push(-p.clone());
        v.push(-&p - 1);
        v.push(-&p + 1);
    }
    v
}
fn bytestrings() -> Vec<Vec<u8>> {
    vec![vec![], vec![0], vec![255], vec![1, 2, 3], vec![0, 0], (0..=255u8).collect(), vec![7; 9]]
}
fn sem_name(s: BuiltinSemantics) -> &'static str {
    match s {
        BuiltinSemantics::A => "A",
        BuiltinSemantics::B => "B",
        BuiltinSemantics::C => "C",
        BuiltinSemantics::D => "D",
        BuiltinSemantics::E => "E",
    }
}
fn call_builtin(f: DefaultFunction, sem: BuiltinSemantics, args: &[Value]) -> Result<Result<Value, String>, String> {
    let args = args.to_vec();
    std::panic::catch_unwind(std::panic::AssertUnwindSafe(move || {
        let mut traces = vec![];
        f.call(sem, &args, &mut traces).map_err(|e| format!("{e}").lines().next().unwrap_or("").to_string())
    }))
    .map_err(|p| p.downcast_ref::<String>().cloned().or_else(|| p.downcast_ref::<&str>().map(|s| s.to_string())).unwrap_or_default())
}
fn expect_builtin(fails: &mut Vec<serde_json::Value>, f: DefaultFunction, sem: BuiltinSemantics, args: &[Value], argtxt: String, want: Option<Value>) {
    let input = serde_json::json!({"builtin": format!("{f:?}"), "semantics": sem_name(sem), "args": argtxt});
    match call_builtin(f, sem, args) {
        Err(p) => fails.push(fail("builtins", "builtin panicked", input, "a value or a failure".into(), format!("panic: {p}"))),
        Ok(got) => match (&want, &got) {
            (Some(w), Ok(g)) if w == g => {}
            (None, Err(_)) => {}
            _ => fails.push(fail("builtins", "builtin result differs from its specification", input, format!("{want:?}"), format!("{got:?}"))),
        },
    }
}
fn mode_builtins(_seed: u64, limit: usize) -> Vec<serde_json::Value> {
    use DefaultFunction as F;
    let mut fails = vec![];
    let is = ints();
    let bs = bytestrings();
    let sems = [BuiltinSemantics::A, BuiltinSemantics::B, BuiltinSemantics::C, BuiltinSemantics::D, BuiltinSemantics::E];
    let mut n = 0u64;
    let zero = BigInt::from(0);
    for a in &is {
        for b in &is {
            if fails.len() >= limit {
                break;
            }
            let args = [Value::integer(a.clone()), Value::integer(b.clone())];
            let txt = format!("{a} {b}");
            let sem = sems[(n % 5) as usize];
            n += 1;
            expect_builtin(&mut fails, F::AddInteger, sem, &args, txt.clone(), Some(Value::integer(a + b)));
            expect_builtin(&mut fails, F::SubtractInteger, sem, &args, txt.clone(), Some(Value::integer(a - b)));
            expect_builtin(&mut fails, F::MultiplyInteger, sem, &args, txt.clone(), Some(Value::integer(a * b)));
            expect_builtin(&mut fails, F::EqualsInteger, sem, &args, txt.clone(), Some(Value::bool(a == b)));
            expect_builtin(&mut fails, F::LessThanInteger, sem, &args, txt.clone(), Some(Value::bool(a < b)));
            expect_builtin(&mut fails, F::LessThanEqualsInteger, sem, &args, txt.clone(), Some(Value::bool(a <= b)));
            let nz = *b != zero;
            expect_builtin(&mut fails, F::DivideInteger, sem, &args, txt.clone(), nz.then(|| Value::integer(a.div_floor(b))));
            expect_builtin(&mut fails, F::ModInteger, sem, &args, txt.clone(), nz.then(|| Value::integer(a.mod_floor(b))));
            // truncating division written out independently: sign(a)*sign(b) * (|a| div |b|)
            let q = nz.then(|| {
                let m = num_traits::Signed::abs(a).div_floor(&num_traits::Signed::abs(b));
                if (a < &zero) != (b < &zero) { -m } else { m }
            });
            expect_builtin(&mut fails, F::QuotientInteger, sem, &args, txt.clone(), q.clone().map(Value::integer));
            expect_builtin(&mut fails, F::RemainderInteger, sem, &args, txt.clone(), q.map(|q| Value::integer(a - b * q)));
        }
    }
    for sem in sems {
        for x in &bs {
            for i in &is {
                if fails.len() >= limit {
                    break;
                }
                n += 1;
                // indexByteString
                let want = if *i >= zero && *i < BigInt::from(x.len()) { Some(Value::integer(BigInt::from(x[usize::try_from(i).unwrap()]))) } else { None };
                expect_builtin(&mut fails, F::IndexByteString, sem, &[Value::byte_string(x.clone()), Value::integer(i.clone())], format!("#{} {i}", hex(x)), want);
                // consByteString: C/E range-check, A/B/D wrap modulo 256
                let range_checked = matches!(sem, BuiltinSemantics::C | BuiltinSemantics::E);
                let want = if range_checked {
                    (*i >= zero && *i <= BigInt::from(255)).then(|| u8::try_from(i).unwrap())
                } else {
                    Some(u8::try_from(i.mod_floor(&BigInt::from(256))).unwrap())
                }
                .map(|b| {
                    let mut v = vec![b];
                    v.extend(x.iter());
                    Value::byte_string(v)
                });
                expect_builtin(&mut fails, F::ConsByteString, sem, &[Value::integer(i.clone()), Value::byte_string(x.clone())], format!("{i} #{}", hex(x)), want);
            }
            for y in &bs {
                n += 1;
                let args = [Value::byte_string(x.clone()), Value::byte_string(y.clone())];
                let txt = format!("#{} #{}", hex(x), hex(y));
                let mut cat = x.clone();
                cat.extend(y.iter());
                expect_builtin(&mut fails, F::AppendByteString, sem, &args, txt.clone(), Some(Value::byte_string(cat)));
                expect_builtin(&mut fails, F::EqualsByteString, sem, &args, txt.clone(), Some(Value::bool(x == y)));
                expect_builtin(&mut fails, F::LessThanByteString, sem, &args, txt.clone(), Some(Value::bool(x < y)));
                expect_builtin(&mut fails, F::LessThanEqualsByteString, sem, &args, txt.clone(), Some(Value::bool(x <= y)));
            }
            expect_builtin(&mut fails, F::LengthOfByteString, sem, &[Value::byte_string(x.clone())], format!("#{}", hex(x)), Some(Value::integer(BigInt::from(x.len()))));
            // sliceByteString start len bs  = take len (drop start bs), negative arguments clamp to 0
            let big = |k: u32, d: i32| (BigInt::from(1) << k) + d;
            let slice_args: Vec<BigInt> = vec![(-1).into(), 0.into(), 1.into(), 2.into(), 300.into(), big(63, -1), big(63, 0), big(64, -1), big(64, 0), big(64, 1), big(130, 0), -big(64, 0)];
            for s in &slice_args {
                for l in &slice_args {
                    // clamp in the integers, before any conversion to a machine word
                    let st = if *s < zero { 0usize } else if *s > BigInt::from(x.len()) { x.len() } else { usize::try_from(s).unwrap() };
                    let avail = x.len() - st;
                    let ln = if *l < zero { 0usize } else if *l > BigInt::from(avail) { avail } else { usize::try_from(l).unwrap() };
                    let want: Vec<u8> = x[st..st + ln].to_vec();
                    expect_builtin(&mut fails, F::SliceByteString, sem, &[Value::integer(s.clone()), Value::integer(l.clone()), Value::byte_string(x.clone())], format!("{s} {l} #{}", hex(x)), Some(Value::byte_string(want)));
                }
            }
        }
        // equalsString: equality of the two texts (same length / same first character / case variants / non-ASCII included)
        let strs = ["", "a", "b", "ab", "ac", "Ab", "abc", "abd", "\u{e9}", "e\u{301}", "\0a", "\0b"];
        for x in &strs {
            for y in &strs {
                n += 1;
                expect_builtin(&mut fails, F::EqualsString, sem, &[Value::string(x.to_string()), Value::string(y.to_string())], format!("{x:?} {y:?}"), Some(Value::bool(x == y)));
            }
        }
        // ill-typed arguments: failure, never a panic
        let ill = [Value::bool(true), Value::byte_string(vec![1]), Value::integer(1.into()), Value::Con(Rc::new(Constant::Unit))];
        for f in [F::AddInteger, F::DivideInteger, F::IndexByteString, F::ConsByteString, F::EqualsByteString, F::LessThanInteger, F::AppendByteString, F::SliceByteString, F::IfThenElse, F::LengthOfByteString, F::HeadList, F::TailList, F::NullList] {
            let ar = f.arity();
            for a in &ill {
                for b in &ill {
                    let args: Vec<Value> = [a.clone(), b.clone(), a.clone()].into_iter().take(ar).collect();
                    if let Err(p) = call_builtin(f, sem, &args) {
                        fails.push(fail("builtins", "builtin panicked on ill-typed arguments", serde_json::json!({"builtin": format!("{f:?}"), "semantics": sem_name(sem), "args": format!("{args:?}")}), "failure".into(), format!("panic: {p}")));
                    }
                }
            }
        }
    }
    // semantics-variant selection (ledger table)
    for (lang, l) in [(Language::PlutusV1, 1), (Language::PlutusV2, 2), (Language::PlutusV3, 3)] {
        for pv in [0u16, 7, 8, 9, 10, 11, 12, 65535] {
            let want = match (l, pv) {
                (1 | 2, p) if p >= 11 => "D",
                (1 | 2, p) if p >= 9 => "B",
                (1 | 2, _) => "A",
                (_, p) if p >= 11 => "E",
                _ => "C",
            };
            let got = sem_name(BuiltinSemantics::for_language_and_protocol(&lang, pv));
            if want != got {
                fails.push(fail("builtins", "semantics variant selection differs from the ledger table", serde_json::json!({"language": l, "protocol": pv}), want.into(), got.into()));
            }
        }
    }
    println!("BOUNDS mode=builtins {} boundary integers (0, ±small, ±2^k, ±2^k±1 for k in 31..200) squared, {} byte strings, 5 semantics variants; {n} argument tuples", is.len(), bs.len());
    fails
}
fn hex(b: &[u8]) -> String {
    b.iter().take(12).map(|x| format!("{x:02x}")).collect::<String>() + if b.len() > 12 { ".." } else { "" }
}


// ------------------------------------------------------------------ mode: allbuiltins (C10): every builtin x typed/ill-typed/boundary argument tuples through the machine (costing + call) must not panic
fn constant_pool() -> Vec<Constant> {
    use uplc::ast::Data;
    let mut v: Vec<Constant> = vec![];
    for i in ints() {
        v.push(Constant::Integer(i));
    }
    for b in bytestrings() {
        v.push(Constant::ByteString(b));
    }
    for s in ["", "a", "\u{0}label", "h\u{e9}llo"] {
        v.push(Constant::String(s.to_string()));
    }
    v.push(Constant::Bool(true));
    v.push(Constant::Bool(false));
    v.push(Constant::Unit);
    let i = |x: i64| Constant::Integer(x.into());
    v.push(Constant::ProtoList(Type::Integer, vec![]));
    v.push(Constant::ProtoList(Type::Integer, vec![i(0), i(-1), i(70000)]));
    v.push(Constant::ProtoList(Type::Bool, vec![Constant::Bool(true)]));
    v.push(Constant::ProtoList(Type::ByteString, vec![Constant::ByteString(vec![1, 2])]));
    let d = |x: i64| Data::integer(x.into());
    let datas = vec![d(0), d(-5), Data::integer(BigInt::from(1) << 70), Data::bytestring(vec![]), Data::bytestring(vec![9; 70]), Data::list(vec![]), Data::list(vec![d(1), d(2)]),
        Data::map(vec![(d(1), d(2))]), Data::constr(0, vec![]), Data::constr(6, vec![d(1)]), Data::constr(7, vec![]), Data::constr(127, vec![]), Data::constr(128, vec![d(3)]), Data::constr(u64::MAX, vec![])];
    for x in &datas {
        v.push(Constant::Data(x.clone()));
    }
    v.push(Constant::ProtoList(Type::Data, vec![]));
    v.push(Constant::ProtoList(Type::Data, datas.iter().take(4).cloned().map(Constant::Data).collect()));
    v.push(Constant::ProtoList(Type::Pair(Rc::new(Type::Data), Rc::new(Type::Data)), vec![Constant::ProtoPair(Type::Data, Type::Data, Rc::new(Constant::Data(d(1))), Rc::new(Constant::Data(d(2))))]));
    v.push(Constant::ProtoPair(Type::Integer, Type::Bool, Rc::new(i(1)), Rc::new(Constant::Bool(false))));
    v.push(Constant::ProtoPair(Type::Data, Type::Data, Rc::new(Constant::Data(d(1))), Rc::new(Constant::Data(d(2)))));
    v
}
fn mode_allbuiltins(seed: u64, limit: usize) -> Vec<serde_json::Value> {
    let mut fails = vec![];
    let pool = constant_pool();
    let mut rng = Rng(0xC2B2AE3D27D4EB4F ^ seed.wrapping_mul(0x165667B19E3779F9) | 1);
    let mut n = 0u64;
    let mut nb = 0;
    let per = 400;
    for tag in 0u8..=127 {
        let Ok(f) = DefaultFunction::try_from(tag) else { continue };
        nb += 1;
        let ar = f.arity();
        for k in 0..per {
            if fails.len() >= limit {
                break;
            }
            set_last(format!("allbuiltins: {f:?} tuple #{k}"));
            let v = VARIANTS[(k % 6) as usize];
            let mut t: Term<NamedDeBruijn> = Term::Builtin(f);
            for _ in 0..f.force_count() {
                t = Term::Force(Rc::new(t));
            }
            let mut shown = vec![];
            for _ in 0..ar {
                let c = pool[rng.below(pool.len() as u64) as usize].clone();
                shown.push(format!("{}", Term::<NamedDeBruijn>::Constant(Rc::new(c.clone())).to_pretty().split_whitespace().collect::<Vec<_>>().join(" ")));
                t = Term::Apply { function: Rc::new(t), argument: Rc::new(Term::Constant(Rc::new(c))) };
            }
            n += 1;
            let r = run_real(t, v, None, BIG, 200);
            if let Some(p) = r.panicked {
                fails.push(fail("allbuiltins", "evaluator panicked applying a builtin", serde_json::json!({"builtin": format!("{f:?}"), "args": shown, "language": v.lang, "protocol": v.pv}), "a value or an error".into(), format!("panic: {p}")));
            }
        }
    }
    println!("BOUNDS mode=allbuiltins {nb} builtins x {per} random argument tuples from a pool of {} constants (boundary integers up to 2^200, byte strings, strings, bool, unit, lists, pairs, data) x 6 variants; {n} runs; seed {seed}", pool.len());
    fails
}


// ------------------------------------------------------------------ mode: flat (C08): serialisation round trips, bit-exact
fn flat_terms() -> Vec<Term<DeBruijn>> {
    let mut extra: Vec<Term<DeBruijn>> = vec![];
    for tag in [0usize, 1, 127, 128, 129, 255, 256, 300, 65535, 65536, 1 << 32] {
        extra.push(Term::Constr { tag, fields: vec![] });
        extra.push(Term::Constr { tag, fields: vec![Term::Constant(Rc::new(Constant::Integer(1.into()))), Term::Error] });
        extra.push(Term::Case { constr: Rc::new(Term::Constr { tag, fields: vec![] }), branches: vec![Term::Error, Term::Constant(Rc::new(Constant::Unit))] });
    }
    // scripts whose flat form needs a 2-byte and a 4-byte CBOR length header
    extra.push(Term::Constant(Rc::new(Constant::ByteString(vec![7u8; 300]))));
    extra.push(Term::Constant(Rc::new(Constant::ByteString((0..70_000u32).map(|i| i as u8).collect()))));
    let mut out: Vec<Term<DeBruijn>> = extra;
    for c in constant_pool() {
        out.push(Term::Constant(Rc::new(c)));
    }
    let s = |x: &str| Constant::String(x.to_string());
    let nested = vec![
        Constant::ProtoList(Type::String, vec![s("a"), s("h\u{e9}")]),
        Constant::ProtoList(Type::List(Rc::new(Type::String)), vec![Constant::ProtoList(Type::String, vec![s("x")])]),
        Constant::ProtoPair(Type::Integer, Type::String, Rc::new(Constant::Integer(1.into())), Rc::new(s("p"))),
        Constant::ProtoPair(Type::String, Type::ByteString, Rc::new(s("q")), Rc::new(Constant::ByteString(vec![1]))),
        Constant::ProtoList(Type::Pair(Rc::new(Type::ByteString), Rc::new(Type::Unit)), vec![Constant::ProtoPair(Type::ByteString, Type::Unit, Rc::new(Constant::ByteString(vec![])), Rc::new(Constant::Unit))]),
        Constant::ProtoList(Type::Unit, vec![Constant::Unit, Constant::Unit]),
        Constant::ProtoList(Type::Integer, ints().into_iter().map(Constant::Integer).collect()),
        Constant::ProtoPair(Type::Integer, Type::Integer, Rc::new(Constant::Integer(BigInt::from(1) << 64u32)), Rc::new(Constant::Integer(-(BigInt::from(1) << 100u32)))),
        Constant::ProtoList(Type::Bool, vec![]),
        Constant::ByteString((0..=255u8).cycle().take(600).collect()),
    ];
    for c in nested {
        out.push(Term::Constant(Rc::new(c)));
    }
    for tag in 0u8..=127 {
        if let Ok(f) = DefaultFunction::try_from(tag) {
            out.push(Term::Builtin(f));
        }
    }
    let mut memo = std::collections::HashMap::new();
    for size in 1..=4 {
        for t in terms(size, 0, false, &mut memo).iter() {
            if refcek::closed(t, 0) {
                out.push(to_real_db(t));
            }
        }
    }
    out
}
fn mode_flat(_seed: u64, limit: usize) -> Vec<serde_json::Value> {
    let mut fails = vec![];
    let ts = flat_terms();
    let mut n = 0;
    for t in ts {
        if fails.len() >= limit {
            break;
        }
        n += 1;
        set_last(format!("flat: program #{n}: {:?}", t).chars().take(600).collect());
        for version in [(1u64, 0u64, 0u64), (1, 1, 0)] {
            let prog = Program { version: (version.0 as usize, version.1 as usize, version.2 as usize), term: t.clone() };
            let input = serde_json::json!({"program": prog.to_pretty().split_whitespace().collect::<Vec<_>>().join(" ").chars().take(300).collect::<String>()});
            let r = std::panic::catch_unwind(std::panic::AssertUnwindSafe(|| {
                let bytes = prog.to_flat().map_err(|e| format!("{e}"))?;
                let back = Program::<DeBruijn>::from_flat(&bytes).map_err(|e| format!("decode: {e}"))?;
                if back != prog {
                    return Err(format!("decoded program differs: {}", back.to_pretty().split_whitespace().collect::<Vec<_>>().join(" ").chars().take(300).collect::<String>()));
                }
                let again = back.to_flat().map_err(|e| format!("{e}"))?;
                if again != bytes {
                    return Err("re-encoding the decoded program gives different bytes".to_string());
                }
                let hexs = prog.to_hex().map_err(|e| format!("{e}"))?;
                let mut b1 = vec![];
                let mut b2 = vec![];
                let back2 = Program::<DeBruijn>::from_hex(&hexs, &mut b1, &mut b2).map_err(|e| format!("hex decode: {e}"))?;
                if back2.to_hex().map_err(|e| format!("{e}"))? != hexs {
                    return Err("hex -> program -> hex is not the identity".to_string());
                }
                // the other two binder forms round-trip as well
                let nd: Program<NamedDeBruijn> = prog.clone().into();
                let nb = nd.to_flat().map_err(|e| format!("{e}"))?;
                let nd2 = Program::<NamedDeBruijn>::from_flat(&nb).map_err(|e| format!("decode (named de Bruijn form): {e}"))?;
                if nd2 != nd { return Err("named-de-Bruijn form does not round-trip".to_string()); }
                if let Ok(named) = Program::<Name>::try_from(prog.clone()) {
                    let b = named.to_flat().map_err(|e| format!("{e}"))?;
                    let n2 = Program::<Name>::from_flat(&b).map_err(|e| format!("decode (named form): {e}"))?;
                    if n2 != named { return Err("named form does not round-trip".to_string()); }
                }
                // the published hash / address is blake2b-224(language tag ++ cbor(flat)) for the declared version
                let cbor = prog.to_cbor().map_err(|e| format!("{e}"))?;
                for (tag, lang) in [(1u8, Language::PlutusV1), (2, Language::PlutusV2), (3, Language::PlutusV3)] {
                    use cryptoxide::{blake2b::Blake2b, digest::Digest};
                    let mut want = [0u8; 28];
                    let mut h = Blake2b::new(28);
                    h.input(&[tag]);
                    h.input(&cbor);
                    h.result(&mut want);
                    let addr = prog.address(pallas_addresses::Network::Testnet, pallas_addresses::ShelleyDelegationPart::Null, &lang);
                    let got = match addr.payment() { pallas_addresses::ShelleyPaymentPart::Script(h) => h.to_vec(), _ => vec![] };
                    if got != want.to_vec() { return Err(format!("address of the PlutusV{tag} script is not the ledger hash of its code")); }
                    let sp = match tag { 1 => uplc::ast::SerializableProgram::PlutusV1Program(prog.clone()), 2 => uplc::ast::SerializableProgram::PlutusV2Program(prog.clone()), _ => uplc::ast::SerializableProgram::PlutusV3Program(prog.clone()) };
                    let (hash, _) = sp.compiled_code_and_hash();
                    if hash.to_vec() != want.to_vec() { return Err(format!("published hash of the PlutusV{tag} script is not the ledger hash of its code")); }
                    // blueprint save -> load keeps the program and its declared Plutus version
                    let js = serde_json::to_string(&sp).map_err(|e| format!("{e}"))?;
                    let back: uplc::ast::SerializableProgram = serde_json::from_str(&js).map_err(|e| format!("blueprint load of a PlutusV{tag} program: {e}"))?;
                    if back != sp { return Err(format!("a PlutusV{tag} program saved to a blueprint loads back as a different program / Plutus version")); }
                }
                Ok::<(), String>(())
            }));
            match r {
                Err(_) => fails.push(fail("flat", "serialisation round trip panicked", input, "no panic".into(), "panic".into())),
                Ok(Err(e)) if e.contains("not supported for flat") => {}
                Ok(Err(e)) => fails.push(fail("flat", "flat/CBOR/hex round trip is not the identity", input, "same program, same bytes".into(), e)),
                Ok(Ok(())) => {}
            }
        }
    }
    println!("BOUNDS mode=flat {n} programs: every constant of the pool, nested list/pair types over string/bytestring/unit, a 600-byte string, every builtin, constr/case with tags 0..2^32 (127/128, 255/256 boundaries), all closed terms of size<=4; versions 1.0.0 and 1.1.0; flat and hex(cbor) in de Bruijn, named-de-Bruijn and named form; address and published hash = blake2b-224(version tag ++ cbor) for V1, V2, V3; blueprint JSON save/load keeps program and version");
    fails
}

// ------------------------------------------------------------------ mode: txsim (C19): phase-two evaluation of the transactions recorded in the repository's own tests
fn unhex(s: &str) -> Vec<u8> {
    (0..s.len() / 2).filter_map(|i| u8::from_str_radix(&s[2 * i..2 * i + 2], 16).ok()).collect()
}
struct RecordedTx { name: String, tx: Vec<u8>, inputs: Vec<u8>, outputs: Vec<u8>, zero_time: u64, zero_slot: u64, slot_length: u32, costs: Vec<i64>, lang: u8, budget: ExBudget }
fn recorded_txs() -> Vec<RecordedTx> {
    let src = std::fs::read_to_string("/repo/crates/uplc/src/tx/tests.rs").unwrap_or_default();
    let mut out = vec![];
    let starts: Vec<usize> = src.match_indices("\nfn test_eval_").map(|(i, _)| i).collect();
    for (k, st) in starts.iter().enumerate() {
        let end = starts.get(k + 1).copied().unwrap_or(src.len());
        let body = &src[*st..end];
        let grab_hex = |key: &str| -> Option<Vec<u8>> { let i = body.find(key)?; let r = &body[i..]; let a = r.find("hex::decode(\"")? + 13; let b = r[a..].find('"')? + a; Some(unhex(&r[a..b])) };
        let num = |key: &str| -> Option<u64> { let i = body.find(key)?; let r = &body[i + key.len()..]; let t: String = r.chars().skip_while(|c| !c.is_ascii_digit()).take_while(|c| c.is_ascii_digit()).collect(); t.parse().ok() };
        let costs: Vec<i64> = (|| { let i = body.find("let costs: Vec<i64> = vec![")?; let r = &body[i + 27..]; let b = r.find(']')?; Some(r[..b].split(',').filter_map(|x| x.trim().parse::<i64>().ok()).collect()) })().unwrap_or_default();
        let lang = if body.contains("plutus_v1: Some(costs)") { 1 } else if body.contains("plutus_v2: Some(costs)") { 2 } else if body.contains("plutus_v3: Some(costs)") { 3 } else { 0 };
        let budget = (|| { let i = body.find("let initial_budget = ExBudget {")?; let r = &body[i..]; let cpu = { let j = r.find("cpu:")?; r[j + 4..].chars().skip_while(|c| !c.is_ascii_digit()).take_while(|c| c.is_ascii_digit()).collect::<String>().parse::<i64>().ok()? }; let mem = { let j = r.find("mem:")?; r[j + 4..].chars().skip_while(|c| !c.is_ascii_digit()).take_while(|c| c.is_ascii_digit()).collect::<String>().parse::<i64>().ok()? }; Some(ExBudget { cpu, mem }) })();
        if let (Some(tx), Some(inputs), Some(outputs), Some(zt), Some(zs), Some(sl), Some(budget)) = (grab_hex("let tx_bytes"), grab_hex("let raw_inputs"), grab_hex("let raw_outputs"), num("zero_time:"), num("zero_slot:"), num("slot_length:"), budget) {
            if lang != 0 && !costs.is_empty() {
                let name: String = body.trim_start().chars().skip(3).take_while(|c| *c != '(').collect();
                out.push(RecordedTx { name, tx, inputs, outputs, zero_time: zt, zero_slot: zs, slot_length: sl as u32, costs, lang, budget });
            }
        }
    }
    out
}
struct BuiltTx { name: String, tx: Vec<u8>, utxos: Vec<uplc::tx::script_context::ResolvedInput>, lang: u8, direct: Vec<(Vec<u8>, usize)>, must_fail: bool }
fn built_txs() -> Vec<BuiltTx> {
    use pallas_codec::utils::{Bytes, CborWrap, MaybeIndefArray, NonEmptyKeyValuePairs, NonEmptySet, Nullable, Set};
    use pallas_primitives::{conway::{DatumOption, ExUnits, NonZeroInt, PlutusScript, PostAlonzoTransactionOutput, Redeemer, RedeemerTag, Redeemers, TransactionBody, TransactionInput, TransactionOutput, Tx, Value as PValue, WitnessSet}, Fragment};
    use pallas_traverse::ComputeHash;
    use uplc::{ast::Data, tx::script_context::ResolvedInput};
    let compile = |src: &str| -> Vec<u8> { let p: Program<DeBruijn> = uplc::parser::program(src).unwrap().try_into().unwrap(); p.to_cbor().unwrap() };
    let body0 = || TransactionBody { inputs: Set::from(vec![]), outputs: vec![], fee: 0, ttl: None, certificates: None, withdrawals: None, auxiliary_data_hash: None, validity_interval_start: None, mint: None, script_data_hash: None, collateral: None, required_signers: None, network_id: None, collateral_return: None, total_collateral: None, reference_inputs: None, voting_procedures: None, proposal_procedures: None, treasury_value: None, donation: None };
    let wit0 = || WitnessSet { vkeywitness: None, native_script: None, bootstrap_witness: None, plutus_v1_script: None, plutus_data: None, redeemer: None, plutus_v2_script: None, plutus_v3_script: None };
    let key_out = |lovelace: u64| { let mut a = vec![0x60]; a.extend([0x11; 28]); TransactionOutput::PostAlonzo(PostAlonzoTransactionOutput { address: Bytes::from(a), value: PValue::Coin(lovelace), datum_option: None, script_ref: None }) };
    let oref = |ix: u64| TransactionInput { transaction_id: [0xaa; 32].into(), index: ix };
    let hash_of = |lang: u8, code: &Vec<u8>| -> pallas_primitives::Hash<28> { match lang { 1 => PlutusScript::<1>(Bytes::from(code.clone())).compute_hash(), 2 => PlutusScript::<2>(Bytes::from(code.clone())).compute_hash(), _ => PlutusScript::<3>(Bytes::from(code.clone())).compute_hash() } };
    let put_scripts = |w: &mut WitnessSet, lang: u8, codes: &[Vec<u8>]| { match lang {
        1 => w.plutus_v1_script = NonEmptySet::from_vec(codes.iter().map(|c| PlutusScript::<1>(Bytes::from(c.clone()))).collect()),
        2 => w.plutus_v2_script = NonEmptySet::from_vec(codes.iter().map(|c| PlutusScript::<2>(Bytes::from(c.clone()))).collect()),
        _ => w.plutus_v3_script = NonEmptySet::from_vec(codes.iter().map(|c| PlutusScript::<3>(Bytes::from(c.clone()))).collect()),
    } };
    let finish = |body: TransactionBody, w: WitnessSet| -> Vec<u8> { Tx { transaction_body: body, transaction_witness_set: w, success: true, auxiliary_data: Nullable::Null }.encode_fragment().unwrap() };
    let lam = |lang: u8, spend: bool, body: &str| -> String { let v = if lang == 3 { "1.1.0" } else { "1.0.0" }; match (lang, spend) { (3, _) => format!("(program {v} (lam ctx {body}))"), (_, true) => format!("(program {v} (lam d (lam r (lam ctx {body}))))"), _ => format!("(program {v} (lam r (lam ctx {body})))") } };
    let nargs = |lang: u8, spend: bool| if lang == 3 { 1 } else if spend { 3 } else { 2 };
    let token = || NonEmptyKeyValuePairs::Def(vec![(Bytes::from(b"t".to_vec()), NonZeroInt::try_from(1).unwrap())]);
    let mut out = vec![];
    for lang in [1u8, 2, 3] {
        // two mint policies of different cost
        let a = compile(&lam(lang, false, "(con unit ())"));
        let b = compile(&lam(lang, false, "[(lam x (con unit ())) [(builtin addInteger) (con integer 1) (con integer 2)]]"));
        for declared in [(0u64, 0u64), (7, 9)] {
            let mut body = body0();
            body.inputs = Set::from(vec![oref(0)]);
            body.outputs = vec![key_out(2_000_000)];
            let mut pols = vec![(hash_of(lang, &a), token()), (hash_of(lang, &b), token())];
            pols.sort_by(|x, y| x.0.cmp(&y.0));
            body.mint = Some(NonEmptyKeyValuePairs::Def(pols));
            let mut w = wit0();
            put_scripts(&mut w, lang, &[a.clone(), b.clone()]);
            let red = |ix: u32| Redeemer { tag: RedeemerTag::Mint, index: ix, data: Data::constr(0, vec![]), ex_units: ExUnits { mem: declared.0, steps: declared.1 } };
            w.redeemer = Some(Redeemers::List(MaybeIndefArray::Def(vec![red(0), red(1)])));
            out.push(BuiltTx { name: format!("two mint policies, PlutusV{lang}, declared units {declared:?}"), tx: finish(body, w), utxos: vec![ResolvedInput { input: oref(0), output: key_out(2_000_000) }], lang, direct: vec![(a.clone(), nargs(lang, false)), (b.clone(), nargs(lang, false))], must_fail: false });
        }
        // a policy whose builtin call is out of range: wraps under PlutusV1/V2 semantics, fails under PlutusV3's
        let c = compile(&lam(lang, false, "[(lam x (con unit ())) [(builtin consByteString) (con integer 256) (con bytestring #)]]"));
        let mut body = body0();
        body.inputs = Set::from(vec![oref(0)]);
        body.outputs = vec![key_out(2_000_000)];
        body.mint = Some(NonEmptyKeyValuePairs::Def(vec![(hash_of(lang, &c), token())]));
        let mut w = wit0();
        put_scripts(&mut w, lang, &[c.clone()]);
        w.redeemer = Some(Redeemers::List(MaybeIndefArray::Def(vec![Redeemer { tag: RedeemerTag::Mint, index: 0, data: Data::constr(0, vec![]), ex_units: ExUnits { mem: 0, steps: 0 } }])));
        out.push(BuiltTx { name: format!("policy calling consByteString 256, PlutusV{lang}"), tx: finish(body, w), utxos: vec![ResolvedInput { input: oref(0), output: key_out(2_000_000) }], lang, direct: vec![(c.clone(), nargs(lang, false))], must_fail: lang == 3 });
        if lang >= 2 {
            // spend of a script-locked output with an inline datum; a second output of the same transaction is the collateral
            let v = compile(&lam(lang, true, "(con unit ())"));
            let mut addr = vec![0x70]; addr.extend(hash_of(lang, &v).as_ref());
            let locked = TransactionOutput::PostAlonzo(PostAlonzoTransactionOutput { address: Bytes::from(addr), value: PValue::Coin(5_000_000), datum_option: Some(DatumOption::Data(CborWrap(Data::integer(42.into())))), script_ref: None });
            let mut body = body0();
            body.inputs = Set::from(vec![oref(0)]);
            body.collateral = NonEmptySet::from_vec(vec![oref(1)]);
            body.outputs = vec![key_out(4_000_000)];
            let mut w = wit0();
            put_scripts(&mut w, lang, &[v.clone()]);
            w.redeemer = Some(Redeemers::List(MaybeIndefArray::Def(vec![Redeemer { tag: RedeemerTag::Spend, index: 0, data: Data::constr(0, vec![]), ex_units: ExUnits { mem: 0, steps: 0 } }])));
            out.push(BuiltTx { name: format!("spend with inline datum + collateral from the same transaction, PlutusV{lang}"), tx: finish(body, w), utxos: vec![ResolvedInput { input: oref(0), output: locked }, ResolvedInput { input: oref(1), output: key_out(9_000_000) }], lang, direct: vec![(v.clone(), nargs(lang, true))], must_fail: false });
        }
    }
    // withdrawals from a key account and a script account (PlutusV2): the script compares the purpose it is given with
    // the ledger's encoding `Rewarding (StakingHash (ScriptCredential h))` = Constr 2 [Constr 0 [Constr 1 [B h]]], passed as redeemer
    {
        let purpose = "[(force (builtin headList)) [(force (builtin tailList)) [(force (force (builtin sndPair))) [(builtin unConstrData) ctx]]]]";
        let code = compile(&format!("(program 1.0.0 (lam r (lam ctx (force [(force (builtin ifThenElse)) [(builtin equalsData) {purpose} r] (delay (con unit ())) (delay (error))]))))"));
        let h = hash_of(2, &code);
        let mut script_acct = vec![0xf0]; script_acct.extend(h.as_ref());
        let mut key_acct = vec![0xe0]; key_acct.extend([0x22; 28]);
        let expected = Data::constr(2, vec![Data::constr(0, vec![Data::constr(1, vec![Data::bytestring(h.as_ref().to_vec())])])]);
        for ix in [0u32, 1] {
            let mut body = body0();
            body.inputs = Set::from(vec![oref(0)]);
            body.outputs = vec![key_out(2_000_000)];
            body.withdrawals = Some(NonEmptyKeyValuePairs::Def(vec![(Bytes::from(key_acct.clone()), 0), (Bytes::from(script_acct.clone()), 0)]));
            let mut w = wit0();
            put_scripts(&mut w, 2, &[code.clone()]);
            w.redeemer = Some(Redeemers::List(MaybeIndefArray::Def(vec![Redeemer { tag: RedeemerTag::Reward, index: ix, data: expected.clone(), ex_units: ExUnits { mem: 0, steps: 0 } }])));
            out.push(BuiltTx { name: format!("withdrawals from a key and a script account, PlutusV2, redeemer pointer {ix}"), tx: finish(body, w), utxos: vec![ResolvedInput { input: oref(0), output: key_out(2_000_000) }], lang: 2, direct: vec![], must_fail: ix == 1 });   // script credentials sort before key credentials (ledger's Ord on Credential): the script account is pointer 0
        }
    }
    out
}
fn mode_txsim(_seed: u64, limit: usize) -> Vec<serde_json::Value> {
    use pallas_primitives::{conway::{CostModels, TransactionInput, TransactionOutput}, Fragment};
    use pallas_traverse::{Era, MultiEraTx};
    use uplc::tx::{eval_phase_two, script_context::{ResolvedInput, SlotConfig}};
    let mut fails = vec![];
    let txs = recorded_txs();
    let mut n = 0;
    for rt in &txs {
        if fails.len() >= limit { break; }
        let input = serde_json::json!({"transaction": format!("crates/uplc/src/tx/tests.rs::{}", rt.name)});
        let r = std::panic::catch_unwind(std::panic::AssertUnwindSafe(|| -> Result<(), String> {
            let inputs = Vec::<TransactionInput>::decode_fragment(&rt.inputs).map_err(|e| format!("inputs: {e}"))?;
            let outputs = Vec::<TransactionOutput>::decode_fragment(&rt.outputs).map_err(|e| format!("outputs: {e}"))?;
            let utxos: Vec<ResolvedInput> = inputs.iter().zip(outputs.iter()).map(|(i, o)| ResolvedInput { input: i.clone(), output: o.clone() }).collect();
            let slot_config = SlotConfig { zero_time: rt.zero_time, zero_slot: rt.zero_slot, slot_length: rt.slot_length };
            let cm = CostModels { plutus_v1: if rt.lang == 1 { Some(rt.costs.clone()) } else { None }, plutus_v2: if rt.lang == 2 { Some(rt.costs.clone()) } else { None }, plutus_v3: if rt.lang == 3 { Some(rt.costs.clone()) } else { None } };
            let met = MultiEraTx::decode_for_era(Era::Conway, &rt.tx).or_else(|_| MultiEraTx::decode_for_era(Era::Babbage, &rt.tx)).or_else(|_| MultiEraTx::decode_for_era(Era::Alonzo, &rt.tx)).map_err(|e| format!("tx: {e}"))?;
            let MultiEraTx::Conway(tx) = met else { return Err("SKIP not a Conway transaction".into()) };
            let run = |utxos: &[ResolvedInput], b: &ExBudget| eval_phase_two(&tx, utxos, Some(&cm), Some(b), &slot_config, false, |_| ());
            let base = run(&utxos, &rt.budget).map_err(|e| format!("SKIP the recorded transaction does not evaluate on this tree: {e}"))?;
            let units = |v: &Vec<(pallas_primitives::conway::Redeemer, uplc::machine::eval_result::EvalResult)>| -> Vec<(u64, u64)> { v.iter().map(|(r, _)| (r.ex_units.mem, r.ex_units.steps)).collect() };
            // (1) the reported units are the evaluator's cost of that script run
            for (k, (r, er)) in base.iter().enumerate() {
                let c = er.cost();
                if (r.ex_units.mem as i64, r.ex_units.steps as i64) != (c.mem, c.cpu) { return Err(format!("redeemer #{k}: reported units {:?} differ from the evaluator's cost {:?}", r.ex_units, c)); }
            }
            // (2) the order in which resolved inputs are supplied does not matter
            let mut rev = utxos.clone(); rev.reverse();
            let mut rot = utxos.clone(); if !rot.is_empty() { rot.rotate_left(1); }
            for (what, perm) in [("reversed", &rev), ("rotated", &rot)] {
                match run(perm, &rt.budget) {
                    Ok(v) => if units(&v) != units(&base) { return Err(format!("with the resolved inputs {what} the units are {:?} instead of {:?}", units(&v), units(&base))); },
                    Err(e) => return Err(format!("with the resolved inputs {what} the simulation fails: {e}")),
                }
            }
            // (3) each redeemer runs against what the previous ones left: the exact total suffices, one unit less does not
            let total = base.iter().fold(ExBudget { mem: 0, cpu: 0 }, |a, (r, _)| ExBudget { mem: a.mem + r.ex_units.mem as i64, cpu: a.cpu + r.ex_units.steps as i64 });
            match run(&utxos, &total) {
                Ok(v) => if units(&v) != units(&base) { return Err("with the exact total as budget the units change".into()); },
                Err(e) => return Err(format!("a budget equal to the total of the reported units does not suffice: {e}")),
            }
            if !base.is_empty() {
                if run(&utxos, &ExBudget { cpu: total.cpu - 1, mem: total.mem }).is_ok() { return Err("one cpu unit less than the total of the reported units still succeeds".into()); }
                if run(&utxos, &ExBudget { cpu: total.cpu, mem: total.mem - 1 }).is_ok() { return Err("one memory unit less than the total of the reported units still succeeds".into()); }
            }
            if base.len() >= 2 {
                let first = ExBudget { mem: base[0].0.ex_units.mem as i64, cpu: base[0].0.ex_units.steps as i64 };
                if run(&utxos, &first).is_ok() { return Err("a budget that only covers the first redeemer lets all of them succeed: later redeemers are not charged against what is left".into()); }
            }
            // (4) reproducible
            if let Ok(v) = run(&utxos, &rt.budget) { if units(&v) != units(&base) { return Err("a second simulation reports different units".into()); } }
            Ok(())
        }));
        match r {
            Err(_) => fails.push(fail("txsim", "transaction simulation panicked", input, "units or an error".into(), "panic".into())),
            Ok(Err(e)) if e.starts_with("SKIP") => {}
            Ok(Err(e)) => { n += 1; fails.push(fail("txsim", "phase-two simulation is inconsistent", input, "units = evaluator cost; input order irrelevant; budget handed over between redeemers".into(), e)) }
            Ok(Ok(())) => { n += 1; }
        }
    }
    // ---- transactions built here: several redeemers, every language version, two resolved inputs of one transaction,
    // withdrawals from a key and a script account
    let built = built_txs();
    let nb = built.len();
    let mut nbuilt = 0;
    for bt in built {
        if fails.len() >= limit { break; }
        let input = serde_json::json!({"transaction": format!("built: {}", bt.name)});
        let r = std::panic::catch_unwind(std::panic::AssertUnwindSafe(|| -> Result<(), String> {
            let met = MultiEraTx::decode_for_era(Era::Conway, &bt.tx).map_err(|e| format!("SKIP built transaction does not decode: {e}"))?;
            let MultiEraTx::Conway(tx) = met else { return Err("SKIP".into()) };
            let (v2c, v3c) = parse_cost_vectors();
            let costs: Vec<i64> = match bt.lang { 1 => uplc::machine::cost_model::BuiltinCosts::DEFAULT_V1.to_vec(), 2 => v2c, _ => v3c };
            if costs.is_empty() { return Err("SKIP no cost vector".into()); }
            let cm = CostModels { plutus_v1: if bt.lang == 1 { Some(costs.clone()) } else { None }, plutus_v2: if bt.lang == 2 { Some(costs.clone()) } else { None }, plutus_v3: if bt.lang == 3 { Some(costs.clone()) } else { None } };
            let big = ExBudget { mem: 14_000_000, cpu: 10_000_000_000 };
            let sc = SlotConfig::default();
            let run = |utxos: &[ResolvedInput], b: &ExBudget, phase_one: bool| eval_phase_two(&tx, utxos, Some(&cm), Some(b), &sc, phase_one, |_| ());
            let units = |v: &Vec<(pallas_primitives::conway::Redeemer, uplc::machine::eval_result::EvalResult)>| -> Vec<(u64, u64)> { v.iter().map(|(r, _)| (r.ex_units.mem, r.ex_units.steps)).collect() };
            let base = run(&bt.utxos, &big, false);
            if bt.must_fail {
                return match base { Ok(v) => Err(format!("a script that fails under its own language's builtin semantics is reported as succeeding with units {:?}", units(&v))), Err(_) => Ok(()) };
            }
            let base = base.map_err(|e| format!("a complete transaction whose scripts succeed is rejected: {e}"))?;
            if !bt.direct.is_empty() && base.len() != bt.direct.len() { return Err(format!("{} redeemers evaluated, {} expected", base.len(), bt.direct.len())); }
            // (1) units = cost of evaluating that script, applied to its arguments, under its own language and cost model
            let lang = match bt.lang { 1 => Language::PlutusV1, 2 => Language::PlutusV2, _ => Language::PlutusV3 };
            let mut want: Vec<(u64, u64)> = vec![];
            for (code, nargs) in &bt.direct {
                let mut buf = vec![];
                let mut p: Program<NamedDeBruijn> = Program::<uplc::ast::FakeNamedDeBruijn>::from_cbor(code, &mut buf).map(Into::into).map_err(|e| format!("{e}"))?;
                for _ in 0..*nargs { p = p.apply_data(uplc::ast::Data::integer(0.into())); }
                let c = p.eval_as(&lang, &costs, Some(&big)).cost();
                want.push((c.mem as u64, c.cpu as u64));
            }
            let mut got = units(&base); got.sort(); want.sort();
            if !bt.direct.is_empty() && got != want { return Err(format!("reported units {got:?} differ from the evaluator's cost of the scripts {want:?}")); }
            // (2) order of the resolved inputs
            let mut rev = bt.utxos.clone(); rev.reverse();
            match run(&rev, &big, false) {
                Ok(v) => if units(&v) != units(&base) { return Err("with the resolved inputs reversed the units differ".into()); },
                Err(e) => return Err(format!("with the resolved inputs reversed the simulation fails: {e}")),
            }
            // (3) budget hand-over
            let total = base.iter().fold(ExBudget { mem: 0, cpu: 0 }, |a, (r, _)| ExBudget { mem: a.mem + r.ex_units.mem as i64, cpu: a.cpu + r.ex_units.steps as i64 });
            match run(&bt.utxos, &total, false) {
                Ok(v) => if units(&v) != units(&base) { return Err("with the exact total as budget the units change".into()); },
                Err(e) => return Err(format!("a budget equal to the total of the reported units does not suffice: {e}")),
            }
            if run(&bt.utxos, &ExBudget { cpu: total.cpu - 1, mem: total.mem }, false).is_ok() { return Err("one cpu unit less than the total of the reported units still succeeds: redeemers are not charged against what the previous ones left".into()); }
            if run(&bt.utxos, &ExBudget { cpu: total.cpu, mem: total.mem - 1 }, false).is_ok() { return Err("one memory unit less than the total of the reported units still succeeds".into()); }
            if base.len() >= 2 {
                let first = ExBudget { mem: base[0].0.ex_units.mem as i64, cpu: base[0].0.ex_units.steps as i64 };
                if run(&bt.utxos, &first, false).is_ok() { return Err("a budget that only covers the first redeemer lets all of them succeed".into()); }
            }
            // (4) phase one agrees on a complete transaction
            if let Err(e) = run(&bt.utxos, &big, true) { return Err(format!("phase one rejects a transaction that carries every script and redeemer it needs: {e}")); }
            Ok(())
        }));
        match r {
            Err(_) => fails.push(fail("txsim", "transaction simulation panicked", input, "units or an error".into(), "panic".into())),
            Ok(Err(e)) if e.starts_with("SKIP") => {}
            Ok(Err(e)) => { nbuilt += 1; fails.push(fail("txsim", "phase-two simulation is inconsistent", input, "units = evaluator cost under the script's language; input order irrelevant; budget handed over; phase one agrees".into(), e)) }
            Ok(Ok(())) => { nbuilt += 1; }
        }
    }
    println!("BOUNDS mode=txsim {nbuilt} of {nb} transactions built here (two mint policies per language V1/V2/V3 with declared units 0 and bogus; spend with inline datum + a second resolved input of the same transaction, V2/V3; a policy that fails only under V3 semantics; key + script withdrawals with the ledger's V2 purpose encoding): units = direct evaluation, reversed inputs, exact / -1 / first-only budgets, phase one on");
    println!("BOUNDS mode=txsim {n} of {} recorded transactions (crates/uplc/src/tx/tests.rs, read at run time): units = evaluator cost per redeemer; resolved inputs reversed / rotated; budget = exact total, total - 1 (cpu, mem), first redeemer only; repeated run", txs.len());
    fails
}

// ------------------------------------------------------------------ mode: exmem (C05): the size measure of constants, against the specification's memoryUsage
fn spec_int_words(n: &BigInt) -> i64 {
    if n.sign() == num_bigint::Sign::NoSign { 1 } else { ((n.magnitude().bits() - 1) / 64) as i64 + 1 }
}
fn spec_bytes_words(len: usize) -> i64 {
    if len == 0 { 1 } else { ((len - 1) / 8) as i64 + 1 }
}
fn spec_data_words(d: &pallas_primitives::alonzo::PlutusData) -> i64 {
    use pallas_primitives::alonzo::PlutusData as PD;
    4 + match d {
        PD::Constr(c) => c.fields.iter().map(spec_data_words).sum::<i64>(),
        PD::Map(m) => m.iter().map(|(k, v)| spec_data_words(k) + spec_data_words(v)).sum::<i64>(),
        PD::Array(xs) => xs.iter().map(spec_data_words).sum::<i64>(),
        PD::BigInt(b) => spec_int_words(&uplc::machine::value::from_pallas_bigint(b)),
        PD::BoundedBytes(b) => spec_bytes_words(b.len()),
    }
}
fn spec_const_words(c: &Constant) -> Option<i64> {
    Some(match c {
        Constant::Integer(i) => spec_int_words(i),
        Constant::ByteString(b) => spec_bytes_words(b.len()),
        Constant::String(s) => s.chars().count() as i64,
        Constant::Unit | Constant::Bool(_) => 1,
        Constant::ProtoList(_, xs) => { let mut t = 0; for x in xs { t += spec_const_words(x)?; } t }
        Constant::ProtoPair(_, _, a, b) => spec_const_words(a)? + spec_const_words(b)?,
        Constant::Data(d) => spec_data_words(d),
        _ => return None,
    })
}
fn mode_exmem(_seed: u64, limit: usize) -> Vec<serde_json::Value> {
    use uplc::ast::Data;
    let mut fails = vec![];
    let mut ints: Vec<BigInt> = vec![0.into(), 1.into(), (-1).into(), 255.into(), 256.into()];
    for k in [63u32, 64, 65, 127, 128, 129, 191, 192, 193, 255, 256, 257] {
        let p = BigInt::from(1) << k;
        for d in [-1i32, 0, 1] { ints.push(&p + d); ints.push(-(&p + d)); }
    }
    let mut pool: Vec<Constant> = vec![Constant::Unit, Constant::Bool(true), Constant::String("".into()), Constant::String("héllo wörld".into())];
    for i in &ints { pool.push(Constant::Integer(i.clone())); pool.push(Constant::Data(Data::integer(i.clone()))); }
    for len in [0usize, 1, 7, 8, 9, 15, 16, 17, 63, 64, 65, 300] {
        let b: Vec<u8> = (0..len).map(|x| x as u8).collect();
        pool.push(Constant::ByteString(b.clone()));
        pool.push(Constant::Data(Data::bytestring(b)));
    }
    let neg128 = -(BigInt::from(1) << 128u32);
    pool.push(Constant::Data(Data::list(vec![Data::integer(neg128.clone()), Data::bytestring(vec![1; 9]), Data::constr(1, vec![Data::integer(0.into())])])));
    pool.push(Constant::Data(Data::map(vec![(Data::integer(neg128.clone()), Data::list(vec![])), (Data::bytestring(vec![]), Data::constr(0, vec![]))])));
    pool.push(Constant::Data(Data::constr(7, vec![Data::constr(0, vec![Data::integer((BigInt::from(1) << 64u32) - 1)]), Data::map(vec![])])));
    pool.push(Constant::ProtoList(Type::Integer, ints.iter().take(9).map(|i| Constant::Integer(i.clone())).collect()));
    pool.push(Constant::ProtoList(Type::Data, vec![]));
    pool.push(Constant::ProtoPair(Type::Integer, Type::ByteString, Rc::new(Constant::Integer(neg128.clone())), Rc::new(Constant::ByteString(vec![0; 17]))));
    pool.push(Constant::ProtoList(Type::Pair(Rc::new(Type::Data), Rc::new(Type::Data)), vec![Constant::ProtoPair(Type::Data, Type::Data, Rc::new(Constant::Data(Data::integer(neg128.clone()))), Rc::new(Constant::Data(Data::bytestring(vec![2; 8]))))]));
    let mut n = 0;
    for c in &pool {
        if fails.len() >= limit { break; }
        let Some(want) = spec_const_words(c) else { continue };
        n += 1;
        let v = Value::Con(Rc::new(c.clone()));
        let input = serde_json::json!({"constant": format!("{c:?}").chars().take(200).collect::<String>()});
        match std::panic::catch_unwind(std::panic::AssertUnwindSafe(|| v.to_ex_mem())) {
            Err(_) => fails.push(fail("exmem", "size measure panicked", input, format!("{want}"), "panic".into())),
            Ok(got) => if got != want { fails.push(fail("exmem", "memory size of a constant differs from the specification's memoryUsage", input, format!("{want} words"), format!("{got} words"))) },
        }
    }
    println!("BOUNDS mode=exmem {n} constants: integers at the 64-bit word boundaries (2^63..2^257, +-1, both signs), byte strings of length 0..300 around multiples of 8, the same inside Data (4 per node), lists, pairs, maps, nested Data");
    fails
}

// ------------------------------------------------------------------ mode: proptest (C16): the real PropertyTest::run on hand-built UPLC fuzzers
// Fuzzer protocol (aiken/fuzz): Fuzzer<a> = fn(Prng) -> Option<(Prng, a)> over Data;  Seeded = Constr 0 [seed, choices],
// Replayed = Constr 1 [cursor, choices];  Some = Constr 0 [[prng, value]],  None = Constr 1 [].
fn pt_list(items: Vec<Term<Name>>) -> Term<Name> {
    let mut t = Term::mk_nil_data().apply(Term::unit());
    for it in items.into_iter().rev() {
        t = Term::mk_cons().apply(it).apply(t);
    }
    t
}
/// one byte from the generator: Seeded: byte = seed[0], next seed = blake2b_256(seed), the byte is prepended to the choices;
/// Replayed: consume choices[cursor - 1], None when exhausted.  `crash_from`: the fuzzer itself fails on bytes >= that.
fn pt_byte_fuzzer(crash_from: Option<u8>) -> Term<Name> {
    let some = |prng: Term<Name>, value: Term<Name>| Term::constr_data().apply(Term::integer(0.into())).apply(pt_list(vec![Term::list_data().apply(pt_list(vec![prng, value]))]));
    let guard = |byte_use: Term<Name>| match crash_from {
        None => byte_use,
        Some(c) => Term::less_than_integer().apply(Term::var("byte")).apply(Term::integer((c as i64).into())).delayed_if_then_else(byte_use, Term::Error),
    };
    let seeded = guard(some(
        Term::constr_data().apply(Term::integer(0.into())).apply(pt_list(vec![
            Term::b_data().apply(Term::blake2b_256().apply(Term::var("seed"))),
            Term::b_data().apply(Term::cons_bytearray().apply(Term::var("byte")).apply(Term::var("choices"))),
        ])),
        Term::i_data().apply(Term::var("byte")),
    ))
    .lambda("byte")
    .apply(Term::index_bytearray().apply(Term::var("seed")).apply(Term::integer(0.into())))
    .lambda("choices")
    .apply(Term::un_b_data().apply(Term::head_list().apply(Term::tail_list().apply(Term::var("fields")))))
    .lambda("seed")
    .apply(Term::un_b_data().apply(Term::head_list().apply(Term::var("fields"))));
    let replayed = Term::less_than_equals_integer()
        .apply(Term::integer(1.into()))
        .apply(Term::var("cursor"))
        .delayed_if_then_else(
            guard(some(
                Term::constr_data().apply(Term::integer(1.into())).apply(pt_list(vec![Term::i_data().apply(Term::var("c2")), Term::b_data().apply(Term::var("choices"))])),
                Term::i_data().apply(Term::var("byte")),
            ))
            .lambda("byte")
            .apply(Term::index_bytearray().apply(Term::var("choices")).apply(Term::var("c2")))
            .lambda("c2")
            .apply(Term::subtract_integer().apply(Term::var("cursor")).apply(Term::integer(1.into()))),
            Term::constr_data().apply(Term::integer(1.into())).apply(pt_list(vec![])),
        )
        .lambda("choices")
        .apply(Term::un_b_data().apply(Term::head_list().apply(Term::tail_list().apply(Term::var("fields")))))
        .lambda("cursor")
        .apply(Term::un_i_data().apply(Term::head_list().apply(Term::var("fields"))));
    Term::equals_integer()
        .apply(Term::var("tag"))
        .apply(Term::integer(0.into()))
        .delayed_if_then_else(seeded, replayed)
        .lambda("fields")
        .apply(Term::snd_pair().apply(Term::var("p")))
        .lambda("tag")
        .apply(Term::fst_pair().apply(Term::var("p")))
        .lambda("p")
        .apply(Term::unconstr_data().apply(Term::var("prng")))
        .lambda("prng")
}
/// property: labels the sample "even"/"odd" (trace with a leading NUL), then holds iff byte < threshold
fn pt_property(threshold: u8) -> Term<Name> {
    let label = Term::equals_integer()
        .apply(Term::mod_integer().apply(Term::var("b")).apply(Term::integer(2.into())))
        .apply(Term::integer(0.into()))
        .delayed_if_then_else(Term::string("\0even"), Term::string("\0odd"));
    Term::Builtin(DefaultFunction::Trace)
        .force()
        .apply(label)
        .apply(Term::less_than_integer().apply(Term::var("b")).apply(Term::integer((threshold as i64).into())))
        .lambda("b")
        .apply(Term::un_i_data().apply(Term::var("v")))
        .lambda("v")
}
fn pt_program(t: Term<Name>) -> Program<Name> {
    let mut p = Program { version: (1, 1, 0), term: t };
    uplc::optimize::interner::CodeGenInterner::new().program(&mut p);
    p
}
fn pt_bytes(seed: u32, n: usize) -> Vec<u8> {
    use cryptoxide::{blake2b::Blake2b, digest::Digest};
    let mut out = vec![];
    let mut cur = [0u8; 32];
    let mut h = Blake2b::new(32);
    h.input(&seed.to_be_bytes());
    h.result(&mut cur);
    for _ in 0..n {
        out.push(cur[0]);
        let mut nx = [0u8; 32];
        let mut h = Blake2b::new(32);
        h.input(&cur);
        h.result(&mut nx);
        cur = nx;
    }
    out
}
fn mode_proptest(seed: u64, limit: usize) -> Vec<serde_json::Value> {
    use aiken_lang::{ast::OnTestFailure, plutus_version::PlutusVersion, test_framework::{Fuzzer, PropertyTest}};
    use pallas_primitives::alonzo::PlutusData;
    let mut fails = vec![];
    let mut rng = Rng(0xD1B54A32D192ED03 ^ seed.wrapping_mul(0x9E3779B97F4A7C15) | 1);
    let mut n_cases = 0;
    let int = aiken_lang::tipo::Type::int();
    for round in 0..60u64 {
        if fails.len() >= limit { break; }
        let threshold = [1u8, 16, 64, 128, 200, 240, 250, 255][(round % 8) as usize];
        let n = [1usize, 3, 10, 40][((round / 8) % 4) as usize];
        let s = (rng.next() % 1000) as u32;
        let crash_from = if round % 5 == 4 { Some([8u8, 100, 220][(round % 3) as usize]) } else { None };
        for otf in [OnTestFailure::FailImmediately, OnTestFailure::SucceedEventually, OnTestFailure::SucceedImmediately] {
            n_cases += 1;
            let otf_name = format!("{otf:?}");
            let input = serde_json::json!({"fuzzer": match crash_from { None => "byte".to_string(), Some(c) => format!("byte, crashing on >= {c}") }, "property": format!("byte < {threshold}"), "expectation": otf_name, "seed": s, "max_iterations": n});
            let test = PropertyTest {
                input_path: std::path::PathBuf::from("verif.ak"),
                module: "verif".to_string(),
                name: "prop".to_string(),
                on_test_failure: otf.clone(),
                program: pt_program(pt_property(threshold)),
                fuzzer: Fuzzer { program: pt_program(pt_byte_fuzzer(crash_from)), type_info: int.clone(), stripped_type_info: int.clone() },
            };
            let run = |t: PropertyTest| std::panic::catch_unwind(std::panic::AssertUnwindSafe(move || t.run(s, n, &PlutusVersion::V3)));
            let r = match run(test.clone()) {
                Ok(r) => r,
                Err(_) => { fails.push(fail("proptest", "PropertyTest::run panicked", input, "a result".into(), "panic".into())); continue }
            };
            // the specification, from the byte stream the seed determines
            let bytes = pt_bytes(s, n);
            let fails_prop = |b: u8| b >= threshold;
            let kept = |b: u8| match otf { OnTestFailure::SucceedEventually => !fails_prop(b), _ => fails_prop(b) };
            let mut want_iter = n;
            let mut want_kind = "none";   // none | found | crash
            let mut first = 0u8;
            for (k, b) in bytes.iter().enumerate() {
                if crash_from.map(|c| *b >= c).unwrap_or(false) { want_iter = k + 1; want_kind = "crash"; break; }
                if kept(*b) { want_iter = k + 1; want_kind = "found"; first = *b; break; }
            }
            let mut want_labels = std::collections::BTreeMap::new();
            let counted = if want_kind == "crash" { want_iter - 1 } else { want_iter };
            for b in bytes.iter().take(counted) { *want_labels.entry(if b % 2 == 0 { "even".to_string() } else { "odd".to_string() }).or_insert(0usize) += 1; }
            let got_kind = match &r.counterexample { Err(_) => "crash", Ok(Some(_)) => "found", Ok(None) => "none" };
            let mut problems = vec![];
            if got_kind != want_kind { problems.push(format!("outcome {got_kind}, expected {want_kind}")); }
            if r.iterations != want_iter { problems.push(format!("iterations {} (samples drawn: {want_iter})", r.iterations)); }
            if r.labels != want_labels { problems.push(format!("labels {:?}, expected {:?}", r.labels, want_labels)); }
            if let Ok(Some(v)) = &r.counterexample {
                match v {
                    PlutusData::BigInt(_) => {
                        let b = match uplc::machine::value::from_pallas_bigint(match v { PlutusData::BigInt(x) => x, _ => unreachable!() }).to_string().parse::<i64>() { Ok(x) => x, Err(_) => -1 };
                        if !(0..=255).contains(&b) || !kept(b as u8) { problems.push(format!("reported counterexample {b} is not one under the {otf_name} expectation (re-applying the property does not confirm it)")); }
                        if want_kind == "found" && b > first as i64 { problems.push(format!("reported counterexample {b} is larger than the first one found ({first})")); }
                    }
                    other => problems.push(format!("counterexample is not an integer: {other:?}")),
                }
            }
            // verdict under the expectation
            let tr: aiken_lang::test_framework::TestResult<(), PlutusData> = aiken_lang::test_framework::TestResult::PropertyTestResult(r);
            let want_success = match (want_kind, &otf) { ("crash", _) => false, ("found", OnTestFailure::SucceedImmediately) => true, ("found", _) => false, (_, OnTestFailure::SucceedImmediately) => false, _ => true };
            if tr.is_success() != want_success { problems.push(format!("verdict success={}, expected {want_success}", tr.is_success())); }
            // reproducible: the same seed gives the same report
            if let Ok(r2) = run(test) {
                let tr2: aiken_lang::test_framework::TestResult<(), PlutusData> = aiken_lang::test_framework::TestResult::PropertyTestResult(r2);
                if let (aiken_lang::test_framework::TestResult::PropertyTestResult(a), aiken_lang::test_framework::TestResult::PropertyTestResult(b)) = (&tr, &tr2) {
                    if a.iterations != b.iterations || a.labels != b.labels || format!("{:?}", a.counterexample) != format!("{:?}", b.counterexample) { problems.push("a second run with the same seed reports something else".to_string()); }
                }
            }
            if !problems.is_empty() {
                fails.push(fail("proptest", "property test report differs from what the seed and the code determine", input, format!("{want_kind} after {want_iter} samples, labels {want_labels:?}"), problems.join("; ")));
            }
        }
    }
    println!("BOUNDS mode=proptest {n_cases} property tests: one-byte UPLC fuzzer (optionally crashing) x property `byte < T` (8 thresholds) x 3 expectations x max iterations 1,3,10,40 x random seeds: outcome, iteration count, labels, counterexample re-applied and not larger than the first found, verdict, reproducibility");
    fails
}

// ------------------------------------------------------------------ mode: shrinker (C16): the real Counterexample::simplify on synthetic deterministic fuzzers
fn shortlex_le(a: &[u8], b: &[u8]) -> bool {
    a.len() < b.len() || (a.len() == b.len() && a <= b)
}
fn mode_shrinker(seed: u64, limit: usize) -> Vec<serde_json::Value> {
    use aiken_lang::test_framework::{Cache, Counterexample, Status};
    use uplc::ast::Data;
    let mut fails = vec![];
    let mut rng = Rng(0x94D049BB133111EB ^ seed.wrapping_mul(0xBF58476D1CE4E5B9) | 1);
    // a "fuzzer + property" is a deterministic function from the choice sequence to Keep(value) (property falsified),
    // Ignore (property holds) or Invalid (not enough choices)
    type Oracle = Box<dyn Fn(&[u8]) -> Status<pallas_primitives::conway::PlutusData>>;
    let families: Vec<(&str, Box<dyn Fn(u8) -> Oracle>)> = vec![
        ("sum of two choices > k", Box::new(|k| Box::new(move |c: &[u8]| { if c.len() < 2 { return Status::Invalid; } let s = c[0] as i64 + c[1] as i64; if s > k as i64 { Status::Keep(Data::integer(s.into())) } else { Status::Ignore } }))),
        ("first - second > k (not symmetric)", Box::new(|k| Box::new(move |c: &[u8]| { if c.len() < 2 { return Status::Invalid; } let s = c[0] as i64 - c[1] as i64; if s > (k / 4) as i64 { Status::Keep(Data::list(vec![Data::integer((c[0] as i64).into()), Data::integer((c[1] as i64).into())])) } else { Status::Ignore } }))),
        ("second - first > k (not symmetric)", Box::new(|k| Box::new(move |c: &[u8]| { if c.len() < 2 { return Status::Invalid; } let s = c[1] as i64 - c[0] as i64; if s > (k / 4) as i64 { Status::Keep(Data::list(vec![Data::integer((c[0] as i64).into()), Data::integer((c[1] as i64).into())])) } else { Status::Ignore } }))),
        ("list with length prefix, some element > k", Box::new(|k| Box::new(move |c: &[u8]| { if c.is_empty() { return Status::Invalid; } let n = (c[0] % 5) as usize; if c.len() < 1 + n { return Status::Invalid; } let xs = &c[1..1 + n]; if xs.iter().any(|x| *x > k) { Status::Keep(Data::list(xs.iter().map(|x| Data::integer((*x as i64).into())).collect())) } else { Status::Ignore } }))),
        ("sum >= 100+k and first >= second", Box::new(|k| Box::new(move |c: &[u8]| { if c.len() < 2 { return Status::Invalid; } let s = c[0] as i64 + c[1] as i64; if s >= 100 + k as i64 && c[0] >= c[1] { Status::Keep(Data::list(vec![Data::integer((c[0] as i64).into()), Data::integer((c[1] as i64).into())])) } else { Status::Ignore } }))),
        ("sum >= 100+k and second >= first", Box::new(|k| Box::new(move |c: &[u8]| { if c.len() < 2 { return Status::Invalid; } let s = c[0] as i64 + c[1] as i64; if s >= 100 + k as i64 && c[1] >= c[0] { Status::Keep(Data::list(vec![Data::integer((c[0] as i64).into()), Data::integer((c[1] as i64).into())])) } else { Status::Ignore } }))),
        ("sum of 2nd and 4th >= 100+k and 2nd >= 4th", Box::new(|k| Box::new(move |c: &[u8]| { if c.len() < 4 { return Status::Invalid; } let s = c[1] as i64 + c[3] as i64; if s >= 100 + k as i64 && c[1] >= c[3] { Status::Keep(Data::integer(s.into())) } else { Status::Ignore } }))),
        ("long vector: 66th choice below k/8 (sequences longer than 64 choices)", Box::new(|k| Box::new(move |c: &[u8]| { if c.len() < 70 { return Status::Invalid; } if c[65] < 1 + k / 8 { Status::Keep(Data::list(c[..70].iter().map(|x| Data::integer((*x as i64).into())).collect())) } else { Status::Ignore } }))),
        ("constant fuzzer, always falsified", Box::new(|_k| Box::new(move |_c: &[u8]| Status::Keep(Data::integer(0.into()))))),
        ("third choice odd and first >= k", Box::new(|k| Box::new(move |c: &[u8]| { if c.len() < 3 { return Status::Invalid; } if c[2] % 2 == 1 && c[0] >= k { Status::Keep(Data::integer((c[0] as i64 * 256 + c[2] as i64).into())) } else { Status::Ignore } }))),
    ];
    let mut n = 0;
    for round in 0..900 {
        if fails.len() >= limit {
            break;
        }
        let (name, mk) = &families[round % families.len()];
        let k = rng.below(200) as u8;
        let len = if name.starts_with("long vector") { 70 + rng.below(6) as usize } else { 1 + rng.below(9) as usize };
        let initial: Vec<u8> = (0..len).map(|_| rng.below(256) as u8).collect();
        let oracle = mk(k);
        let Status::Keep(v0) = oracle(&initial) else { continue };
        n += 1;
        let input = serde_json::json!({"fuzzer": name, "k": k, "initial_choices": initial});
        let run = |initial: &Vec<u8>, v0: &pallas_primitives::conway::PlutusData| {
            let o = mk(k);
            let mut cex = Counterexample { value: v0.clone(), choices: initial.clone(), cache: Cache::new(move |c| o(c)) };
            cex.simplify();
            (cex.choices.clone(), cex.value.clone())
        };
        let r = std::panic::catch_unwind(std::panic::AssertUnwindSafe(|| (run(&initial, &v0), run(&initial, &v0))));
        match r {
            Err(_) => fails.push(fail("shrinker", "simplify panicked", input, "no panic".into(), "panic".into())),
            Ok(((choices, value), second)) => {
                if (choices.clone(), value.clone()) != second {
                    fails.push(fail("shrinker", "shrinking is not a function of the choices and the code (two runs differ)", input.clone(), format!("{choices:?}"), format!("{:?}", second.0)));
                }
                match oracle(&choices) {
                    Status::Keep(v) if v == value => {}
                    other => fails.push(fail("shrinker", "reported counterexample is not regenerated by replaying its recorded choices / does not falsify the property", input.clone(), format!("Keep({value:?})"), format!("{:?}", matches!(other, Status::Keep(_))))),
                }
                if !shortlex_le(&choices, &initial) {
                    fails.push(fail("shrinker", "simplified counterexample is larger in choice-sequence order than the first failing case", input.clone(), format!("<= {initial:?}"), format!("{choices:?}")));
                }
            }
        }
    }
    println!("BOUNDS mode=shrinker {n} (fuzzer family x threshold x initial failing choice sequence of length 1..9) cases over 10 synthetic deterministic fuzzers (one with choice sequences of 70..75 bytes); seed {seed}");
    fails
}


// ------------------------------------------------------------------ mode: interner (C11): CodeGenInterner keeps binding structure, never captures a free variable
/// name a de Bruijn term: binder number k (pre-order) gets text/unique from `scheme`, a free variable gets `free_unique`
fn to_named(t: &T, binders: &mut Vec<(String, isize)>, counter: &mut isize, scheme: u8, free_unique: isize) -> Term<Name> {
    use uplc::ast::Unique;
    let nm = |text: &str, u: isize| Rc::new(Name { text: text.to_string(), unique: Unique::new(u) });
    match t {
        T::Var(i) => {
            if *i >= 1 && *i <= binders.len() {
                let (tx, u) = binders[binders.len() - *i].clone();
                Term::Var(nm(&tx, u))
            } else {
                // free_unique >= 900: the free variable carries the TEXT of the binders (and a unique none of them has)
                if free_unique >= 900 { Term::Var(nm(if scheme == 1 { "v0" } else { "x" }, free_unique)) } else { Term::Var(nm("free", free_unique)) }
            }
        }
        T::Lam(b) => {
            let k = *counter;
            *counter += 1;
            // scheme 0: every binder is ("x", 0) (what builder-made terms look like); 1: distinct texts, unique 0;
            // 2: same text, distinct uniques counting DOWN from 50 (so they differ from the fresh numbering); 3: ("x", k)
            let (tx, u) = match scheme { 0 => ("x".to_string(), 0), 1 => (format!("v{k}"), 0), 2 => ("x".to_string(), 50 - k), _ => ("x".to_string(), k) };
            binders.push((tx.clone(), u));
            let body = to_named(b, binders, counter, scheme, free_unique);
            binders.pop();
            Term::Lambda { parameter_name: nm(&tx, u), body: Rc::new(body) }
        }
        T::App(f, a) => Term::Apply { function: Rc::new(to_named(f, binders, counter, scheme, free_unique)), argument: Rc::new(to_named(a, binders, counter, scheme, free_unique)) },
        T::Delay(b) => Term::Delay(Rc::new(to_named(b, binders, counter, scheme, free_unique))),
        T::Force(b) => Term::Force(Rc::new(to_named(b, binders, counter, scheme, free_unique))),
        T::Con(k) => Term::Constant(Rc::new(k_to_constant(k))),
        T::Error => Term::Error,
        T::Builtin(b) => Term::Builtin(b_to_fun(*b)),
        T::Constr(tag, fs) => Term::Constr { tag: *tag, fields: fs.iter().map(|f| to_named(f, binders, counter, scheme, free_unique)).collect() },
        T::Case(sc, bs) => Term::Case { constr: Rc::new(to_named(sc, binders, counter, scheme, free_unique)), branches: bs.iter().map(|f| to_named(f, binders, counter, scheme, free_unique)).collect() },
    }
}
/// shadowing-aware expectation: with scheme 0/2/3 every binder has the same text, so a variable (named after its binder)
/// refers to ... its own binder only if no nearer binder carries the same (text, unique) pair
fn expected_after_interning(t: &T, scheme: u8) -> bool {
    // the named term denotes `t` itself iff no variable is captured by a nearer binder with an identical name
    fn ok(t: &T, binders: &mut Vec<isize>, counter: &mut isize, scheme: u8) -> bool {
        match t {
            T::Var(i) => {
                if *i >= 1 && *i <= binders.len() {
                    let me = binders[binders.len() - *i];
                    // nearer binders with the same identity capture the variable
                    !binders[binders.len() - *i + 1..].iter().any(|b| *b == me)
                } else { true }
            }
            T::Lam(b) => {
                let k = *counter; *counter += 1;
                let id = match scheme { 0 => 0, 1 => 1000 + k, 2 => 50 - k, _ => k };
                binders.push(id); let r = ok(b, binders, counter, scheme); binders.pop(); r
            }
            T::App(f, a) => ok(f, binders, counter, scheme) && ok(a, binders, counter, scheme),
            T::Delay(b) | T::Force(b) => ok(b, binders, counter, scheme),
            T::Constr(_, fs) => fs.iter().all(|f| ok(f, binders, counter, scheme)),
            T::Case(sc, bs) => ok(sc, binders, counter, scheme) && bs.iter().all(|f| ok(f, binders, counter, scheme)),
            _ => true,
        }
    }
    ok(t, &mut vec![], &mut 0, scheme)
}
fn check_interner(t: &T, scheme: u8, free_unique: isize) -> Option<serde_json::Value> {
    use uplc::optimize::interner::CodeGenInterner;
    if !expected_after_interning(t, scheme) {
        return None; // the named input itself does not denote t (a nearer identical binder captures): not a case of the property
    }
    let named = to_named(t, &mut vec![], &mut 0, scheme, free_unique);
    let input = serde_json::json!({"term": to_real_db(t).to_pretty().split_whitespace().collect::<Vec<_>>().join(" "), "naming_scheme": scheme, "free_unique": free_unique});
    let r = std::panic::catch_unwind(std::panic::AssertUnwindSafe(|| {
        let mut prog = Program { version: (1, 1, 0), term: named };
        CodeGenInterner::new().program(&mut prog);
        let db: Result<Program<DeBruijn>, _> = prog.try_into();
        db.ok()
    }));
    let closed = well_scoped(t, 0);
    match r {
        Err(_) => Some(fail("interner", "interning / conversion panicked", input, "no panic".into(), "panic".into())),
        Ok(None) => if closed { Some(fail("interner", "closed program rejected after interning", input, "converted".into(), "error".into())) } else { None },
        Ok(Some(db)) => {
            if !closed {
                Some(fail("interner", "free variable silently bound to a binder after interning", input, "FreeUnique error".into(), db.to_pretty()))
            } else if strip(&db.term) != strip(&to_real_db(t)) {
                Some(fail("interner", "interning changed which binder a variable refers to", input, to_real_db(t).to_pretty(), db.to_pretty()))
            } else { None }
        }
    }
}
fn mode_interner(seed: u64, limit: usize) -> Vec<serde_json::Value> {
    let mut fails = vec![];
    let mut memo = std::collections::HashMap::new();
    let mut n = 0;
    'outer: for size in 1..=5 {
        let ts = terms(size, 0, true, &mut memo);
        for t in ts.iter() {
            for scheme in 0..4u8 {
                for fu in [0isize, 1, 2, 977] {
                    n += 1;
                    if let Some(f) = check_interner(t, scheme, fu) {
                        fails.push(f);
                        if fails.len() >= limit { break 'outer; }
                    }
                }
            }
        }
    }
    let mut rng = Rng(0xDB4F0B9175AE2165 ^ seed.wrapping_mul(0x9FB21C651E98DF25) | 1);
    let mut m = 0;
    while fails.len() < limit && m < 20_000 {
        m += 1;
        let size = 4 + rng.below(18) as usize;
        let open = rng.below(2) == 0;
        let t = random_term(&mut rng, size, 0, open);
        let sch = rng.below(4) as u8;
        let fu = if rng.below(4) == 0 { 977 } else { rng.below(6) as isize };
        if let Some(f) = check_interner(&t, sch, fu) { fails.push(f); }
    }
    println!("BOUNDS mode=interner exhaustive: open and closed terms of size<=5 x 4 naming schemes (all binders (x,0); distinct texts; same text distinct uniques; (x,k)) x free variables named (free,0..2) or with a binder's text and a foreign unique ({n} cases); random: {m}; seed {seed}");
    fails
}


// ------------------------------------------------------------------ mode: named (C11): name -> index conversions, with and without the parser's interner
fn zero_uniques(t: &mut Term<Name>) {
    use uplc::ast::Unique;
    match t {
        Term::Var(n) => { Rc::make_mut(n).unique = Unique::new(0); }
        Term::Lambda { parameter_name, body } => { Rc::make_mut(parameter_name).unique = Unique::new(0); zero_uniques(Rc::make_mut(body)); }
        Term::Apply { function, argument } => { zero_uniques(Rc::make_mut(function)); zero_uniques(Rc::make_mut(argument)); }
        Term::Delay(b) | Term::Force(b) => zero_uniques(Rc::make_mut(b)),
        Term::Constr { fields, .. } => { for f in fields { zero_uniques(f); } }
        Term::Case { constr, branches } => { zero_uniques(Rc::make_mut(constr)); for b in branches { zero_uniques(b); } }
        _ => {}
    }
}
fn strip_nd(t: &Term<NamedDeBruijn>) -> T {
    strip(&Term::<DeBruijn>::from(t.clone()))
}
fn check_named(t: &T, scheme: u8, via_parser_interner: bool) -> Option<serde_json::Value> {
    if !expected_after_interning(t, scheme) { return None; }
    let mut named = to_named(t, &mut vec![], &mut 0, scheme, 77);
    if via_parser_interner {
        if scheme != 0 && scheme != 1 { return None; }   // the parser's interner identifies names by text only
        zero_uniques(&mut named);
    }
    let input = serde_json::json!({"term": to_real_db(t).to_pretty().split_whitespace().collect::<Vec<_>>().join(" "), "naming_scheme": scheme, "via_parser_interner": via_parser_interner});
    let closed = well_scoped(t, 0);
    let r = std::panic::catch_unwind(std::panic::AssertUnwindSafe(|| {
        let mut prog = Program { version: (1, 1, 0), term: named };
        if via_parser_interner { uplc::parser::interner::Interner::new().program(&mut prog); }
        let a: Result<Program<NamedDeBruijn>, _> = prog.clone().try_into();
        let b: Result<Program<DeBruijn>, _> = prog.try_into();
        (a.ok().map(|p| strip_nd(&p.term)), b.ok().map(|p| strip(&p.term)))
    }));
    let want = strip(&to_real_db(t));
    match r {
        Err(_) => Some(fail("named", "conversion panicked", input, "a program or an error".into(), "panic".into())),
        Ok((a, b)) => {
            for (route, got) in [("named -> named-de-Bruijn", a), ("named -> de-Bruijn", b)] {
                match got {
                    None if closed => return Some(fail("named", "closed program rejected", input, "converted".into(), format!("error ({route})"))),
                    Some(_) if !closed => return Some(fail("named", "program with a free variable accepted", input, "FreeUnique error".into(), format!("accepted ({route})"))),
                    Some(g) if g != want => return Some(fail("named", "a variable refers to a different binder after conversion", input, show(&want), format!("{} ({route})", show(&g)))),
                    _ => {}
                }
            }
            None
        }
    }
}
fn mode_named(seed: u64, limit: usize) -> Vec<serde_json::Value> {
    let mut fails = vec![];
    let mut memo = std::collections::HashMap::new();
    let mut n = 0;
    'outer: for size in 1..=5 {
        let ts = terms(size, 0, true, &mut memo);
        for t in ts.iter() {
            // (names are identified by their unique: distinct texts sharing one unique are only meaningful after interning)
            for (scheme, via) in [(3u8, false), (2, false), (1, true), (0, true)] {
                n += 1;
                if let Some(f) = check_named(t, scheme, via) { fails.push(f); if fails.len() >= limit { break 'outer; } }
            }
        }
    }
    let mut rng = Rng(0xA24BAED4963EE407 ^ seed.wrapping_mul(0x9FB21C651E98DF25) | 1);
    let mut m = 0;
    while fails.len() < limit && m < 20_000 {
        m += 1;
        let size = 4 + rng.below(18) as usize;
        let open = rng.below(2) == 0;
        let t = random_term(&mut rng, size, 0, open);
        let (scheme, via) = [(3u8, false), (2, false), (1, true), (0, true)][rng.below(4) as usize];
        if let Some(f) = check_named(&t, scheme, via) { fails.push(f); }
    }
    println!("BOUNDS mode=named exhaustive: open and closed terms of size<=5 x 4 (naming scheme, with/without the parser's interner) ({n} cases); random: {m}; both name->index routes; seed {seed}");
    fails
}

// ------------------------------------------------------------------ mode: datacodec (C04/C08): integers through Data and CBOR
fn mode_datacodec(_seed: u64, limit: usize) -> Vec<serde_json::Value> {
    use uplc::ast::Data;
    use DefaultFunction as F;
    let mut fails = vec![];
    let sem = BuiltinSemantics::E;
    let mut n = 0;
    for i in ints() {
        if fails.len() >= limit { break; }
        n += 1;
        let txt = format!("{i}");
        // unIData (iData n) == n
        let d = match call_builtin(F::IData, sem, &[Value::integer(i.clone())]) { Ok(Ok(v)) => v, other => { fails.push(fail("datacodec", "iData failed", serde_json::json!({"n": txt}), "a data value".into(), format!("{other:?}"))); continue } };
        expect_builtin(&mut fails, F::UnIData, sem, &[d.clone()], format!("iData {txt}"), Some(Value::integer(i.clone())));
        // serialiseData (iData n) is the canonical CBOR integer: major type 0/1 up to 64 bits of magnitude, bignum tag 2/3 beyond
        let want: Vec<u8> = {
            let neg = i < BigInt::from(0);
            let mag: BigInt = if neg { -i.clone() - 1 } else { i.clone() };
            let major: u8 = if neg { 0x20 } else { 0x00 };
            if mag < (BigInt::from(1) << 64u32) {
                let m = u64::try_from(&mag).unwrap();
                if m < 24 { vec![major | m as u8] } else if m < 256 { vec![major | 24, m as u8] } else if m < 65536 { let mut v = vec![major | 25]; v.extend((m as u16).to_be_bytes()); v }
                else if m < (1u64 << 32) { let mut v = vec![major | 26]; v.extend((m as u32).to_be_bytes()); v } else { let mut v = vec![major | 27]; v.extend(m.to_be_bytes()); v }
            } else {
                let (_, bytes) = mag.to_bytes_be();
                let mut v = vec![if neg { 0xc3 } else { 0xc2 }];
                let l = bytes.len();
                if l < 24 { v.push(0x40 | l as u8) } else if l < 256 { v.push(0x58); v.push(l as u8) } else { v.push(0x59); v.extend((l as u16).to_be_bytes()) }
                v.extend(bytes);
                v
            }
        };
        expect_builtin(&mut fails, F::SerialiseData, sem, &[d.clone()], format!("iData {txt}"), Some(Value::byte_string(want)));
        // equalsData is reflexive on the re-built value and agrees with Data::integer
        expect_builtin(&mut fails, F::EqualsData, sem, &[d.clone(), Value::data(Data::integer(i.clone()))], format!("iData {txt}, Data::integer {txt}"), Some(Value::bool(true)));
    }
    // constrData / unConstrData: inverse on every representable constructor index, failure (not clamping) beyond
    let fs = Constant::ProtoList(Type::Data, vec![Constant::Data(Data::integer(7.into()))]);
    for i in ints() {
        if fails.len() >= limit { break; }
        let args = [Value::integer(i.clone()), Value::Con(Rc::new(fs.clone()))];
        let representable = i >= BigInt::from(0) && i < (BigInt::from(1) << 64u32);
        match call_builtin(F::ConstrData, sem, &args) {
            Err(p) => fails.push(fail("datacodec", "constrData panicked", serde_json::json!({"index": format!("{i}")}), "a value or a failure".into(), p)),
            Ok(Ok(d)) => {
                if !representable {
                    fails.push(fail("datacodec", "constrData accepts a constructor index it cannot represent", serde_json::json!({"index": format!("{i}")}), "failure".into(), format!("{d:?}")));
                } else {
                    let want = Value::Con(Rc::new(Constant::ProtoPair(Type::Integer, Type::List(Rc::new(Type::Data)), Rc::new(Constant::Integer(i.clone())), Rc::new(fs.clone()))));
                    expect_builtin(&mut fails, F::UnConstrData, sem, &[d], format!("constrData {i} [I 7]"), Some(want));
                }
            }
            Ok(Err(_)) => {
                if representable {
                    fails.push(fail("datacodec", "constrData rejects a representable constructor index", serde_json::json!({"index": format!("{i}")}), "a data value".into(), "failure".into()));
                }
            }
        }
    }
    // bData / unBData, listData / unListData, mapData / unMapData: inverse pairs; un* fail on every other Data shape; chooseData selects by shape
    let shapes: Vec<(usize, pallas_primitives::alonzo::PlutusData)> = vec![
        (1, Data::constr(0, vec![])), (1, Data::constr(3, vec![Data::integer(1.into())])),
        (2, Data::map(vec![])), (2, Data::map(vec![(Data::integer(1.into()), Data::bytestring(vec![2]))])),
        (3, Data::list(vec![])), (3, Data::list(vec![Data::integer(1.into()), Data::bytestring(vec![1, 2, 3])])),
        (1, Data::constr(0, vec![Data::integer(0.into())])), (1, Data::constr(0, vec![Data::integer(0.into()), Data::integer(1.into())])),
        (1, Data::constr(3, vec![Data::integer(1.into()), Data::bytestring(vec![])])), (1, Data::constr(128, vec![Data::integer(1.into())])),
        (2, Data::map(vec![(Data::integer(1.into()), Data::integer(2.into())), (Data::integer(1.into()), Data::integer(3.into()))])),
        (2, Data::map(vec![(Data::integer(1.into()), Data::integer(2.into()))])),
        (3, Data::list(vec![Data::integer(1.into())])), (3, Data::list(vec![Data::integer(1.into()), Data::integer(1.into())])),
        (4, Data::integer(0.into())), (4, Data::integer(BigInt::from(-1) << 70u32)),
        (5, Data::bytestring(vec![])), (5, Data::bytestring(vec![1, 2, 3])), (5, Data::bytestring((0..=70u8).collect())),
    ];
    for b in bytestrings().into_iter().chain(vec![vec![1u8, 2, 3], (0..=70u8).collect()]) {
        if fails.len() >= limit { break; }
        match call_builtin(F::BData, sem, &[Value::byte_string(b.clone())]) {
            Ok(Ok(d)) => {
                expect_builtin(&mut fails, F::UnBData, sem, &[d.clone()], format!("bData #{}", hex(&b)), Some(Value::byte_string(b.clone())));
                expect_builtin(&mut fails, F::EqualsData, sem, &[d, Value::data(Data::bytestring(b.clone()))], format!("bData #{0}, B #{0}", hex(&b)), Some(Value::bool(true)));
            }
            other => fails.push(fail("datacodec", "bData failed", serde_json::json!({"bytes": hex(&b)}), "a data value".into(), format!("{other:?}"))),
        }
    }
    for (k, d) in &shapes {
        if fails.len() >= limit { break; }
        let dv = Value::data(d.clone());
        let txt = format!("{}", Data::to_hex(d.clone()));
        let sel: Vec<Value> = (1..=5).map(|j| Value::integer(BigInt::from(j))).collect();
        let mut args = vec![dv.clone()];
        args.extend(sel.iter().cloned());
        expect_builtin(&mut fails, F::ChooseData, sem, &args, format!("chooseData {txt} 1 2 3 4 5"), Some(Value::integer(BigInt::from(*k))));
        for (f, kk) in [(F::UnConstrData, 1usize), (F::UnMapData, 2), (F::UnListData, 3), (F::UnIData, 4), (F::UnBData, 5)] {
            if kk != *k {
                expect_builtin(&mut fails, f, sem, &[dv.clone()], format!("{f:?} {txt}"), None);
            }
        }
        for (_, d2) in &shapes {
            expect_builtin(&mut fails, F::EqualsData, sem, &[dv.clone(), Value::data(d2.clone())], format!("equalsData {txt} {}", Data::to_hex(d2.clone())), Some(Value::bool(d == d2)));
        }
        // mkPairData keeps both components, in order
        let want = Value::Con(Rc::new(Constant::ProtoPair(Type::Data, Type::Data, Rc::new(Constant::Data(d.clone())), Rc::new(Constant::Data(Data::integer(9.into()))))));
        expect_builtin(&mut fails, F::MkPairData, sem, &[dv.clone(), Value::data(Data::integer(9.into()))], format!("mkPairData {txt} (I 9)"), Some(want));
        if *k == 3 {
            if let Ok(Ok(l)) = call_builtin(F::UnListData, sem, &[dv.clone()]) {
                expect_builtin(&mut fails, F::ListData, sem, &[l], format!("listData (unListData {txt})"), Some(dv.clone()));
            } else { fails.push(fail("datacodec", "unListData failed on a list", serde_json::json!({"data": txt}), "a list".into(), "failure".into())); }
        }
        if *k == 2 {
            if let Ok(Ok(l)) = call_builtin(F::UnMapData, sem, &[dv.clone()]) {
                expect_builtin(&mut fails, F::MapData, sem, &[l], format!("mapData (unMapData {txt})"), Some(dv.clone()));
            } else { fails.push(fail("datacodec", "unMapData failed on a map", serde_json::json!({"data": txt}), "a list of pairs".into(), "failure".into())); }
        }
    }
    expect_builtin(&mut fails, F::MkNilData, sem, &[Value::Con(Rc::new(Constant::Unit))], "mkNilData ()".into(), Some(Value::list(Type::Data, vec![])));
    expect_builtin(&mut fails, F::MkNilPairData, sem, &[Value::Con(Rc::new(Constant::Unit))], "mkNilPairData ()".into(), Some(Value::list(Type::Pair(Rc::new(Type::Data), Rc::new(Type::Data)), vec![])));
    expect_builtin(&mut fails, F::MkNilData, sem, &[Value::integer(0.into())], "mkNilData 0".into(), None);
    println!("BOUNDS mode=datacodec 19 Data shapes (incl. duplicate map keys, constructors whose fields are prefixes of one another, index 128): b/unB, list/unList, map/unMap inverse; un* reject other shapes; chooseData; equalsData on all pairs; mkPairData; mkNil*");
    println!("BOUNDS mode=datacodec {n} boundary integers (|n| up to 2^200): unIData.iData, serialiseData.iData against the canonical CBOR integer encoding, equalsData");
    fails
}


// ------------------------------------------------------------------ mode: optimizer (C02): before/after the optimiser on compiler-shaped programs
fn eval_named(p: &Program<Name>) -> Result<String, String> {
    let db: Program<NamedDeBruijn> = p.clone().try_into().map_err(|e| format!("scope: {e}"))?;
    let r = run_real(db.term, VARIANTS[0], None, BIG, 200);
    if let Some(pn) = r.panicked { return Err(format!("panic: {pn}")); }
    match r.result { Ok(t) => Ok(t.to_pretty().split_whitespace().collect::<Vec<_>>().join(" ")), Err(_) => Err("failure".into()) }
}
fn check_optimizer_text(src: &str) -> Option<serde_json::Value> {
    let Ok(prog) = uplc::parser::program(src) else { return None };
    let before = eval_named(&prog);
    if let Err(e) = &before { if e.starts_with("scope") { return None; } }
    let input = serde_json::json!({"program": src});
    let opt = std::panic::catch_unwind(std::panic::AssertUnwindSafe(|| uplc::optimize::aiken_optimize_and_intern(prog.clone())));
    let Ok(opt) = opt else { return Some(fail("optimizer", "the optimiser panicked", input, "an optimised program".into(), "panic".into())) };
    let after = eval_named(&opt);
    let same = match (&before, &after) { (Ok(a), Ok(b)) => a == b, (Err(_), Err(_)) => true, _ => false };
    if same { None } else { Some(fail("optimizer", "the optimised program evaluates differently", input, format!("{before:?}"), format!("{after:?}  [optimised: {}]", opt.to_pretty().split_whitespace().collect::<Vec<_>>().join(" ")))) }
}


/// compiler-shaped programs: typed (Int / Bool) expressions over parameters a, b : Int and c : Bool, built from the
/// shapes the code generator emits: `let` = [(lam x body) rhs], `if` = (force [(force ifThenElse) c (delay t) (delay e)]),
/// saturated arithmetic / comparison builtins, `fail` = (error).  Every binder has its own name.
struct Gen<'a> { rng: &'a mut Rng, next: usize }
impl Gen<'_> {
    fn int(&mut self, depth: usize, ints: &Vec<String>, bools: &Vec<String>) -> String {
        let k = if depth == 0 { self.rng.below(2) } else { self.rng.below(10) };
        match k {
            0 => format!("(con integer {})", [0i64, 1, 2, -1, 7][self.rng.below(5) as usize]),
            1 => ints[self.rng.below(ints.len() as u64) as usize].clone(),
            2 | 3 => { let op = ["addInteger", "subtractInteger", "multiplyInteger"][self.rng.below(3) as usize];
                       format!("[(builtin {op}) {} {}]", self.int(depth - 1, ints, bools), self.int(depth - 1, ints, bools)) }
            4 => { let op = ["divideInteger", "modInteger", "quotientInteger"][self.rng.below(3) as usize];
                   format!("[(builtin {op}) {} {}]", self.int(depth - 1, ints, bools), self.int(depth - 1, ints, bools)) }
            5 | 6 => format!("(force [(force (builtin ifThenElse)) {} (delay {}) (delay {})])", self.boolean(depth - 1, ints, bools), self.int(depth - 1, ints, bools), self.int(depth - 1, ints, bools)),
            7 | 8 => { let x = format!("x{}", self.next); self.next += 1;
                       let rhs_int = self.rng.below(4) != 0;
                       let rhs = if rhs_int { self.int(depth - 1, ints, bools) } else { self.boolean(depth - 1, ints, bools) };
                       let (mut i2, mut b2) = (ints.clone(), bools.clone());
                       if rhs_int { i2.push(x.clone()) } else { b2.push(x.clone()) }
                       format!("[(lam {x} {}) {rhs}]", self.int(depth - 1, &i2, &b2)) }
            _ => "(error)".to_string(),
        }
    }
    fn boolean(&mut self, depth: usize, ints: &Vec<String>, bools: &Vec<String>) -> String {
        let k = if depth == 0 { self.rng.below(2) } else { self.rng.below(7) };
        match k {
            0 => format!("(con bool {})", ["True", "False"][self.rng.below(2) as usize]),
            1 => bools[self.rng.below(bools.len() as u64) as usize].clone(),
            2 | 3 => { let op = ["lessThanInteger", "equalsInteger", "lessThanEqualsInteger"][self.rng.below(3) as usize];
                       format!("[(builtin {op}) {} {}]", self.int(depth - 1, ints, bools), self.int(depth - 1, ints, bools)) }
            4 | 5 => format!("(force [(force (builtin ifThenElse)) {} (delay {}) (delay {})])", self.boolean(depth - 1, ints, bools), self.boolean(depth - 1, ints, bools), self.boolean(depth - 1, ints, bools)),
            _ => { let x = format!("x{}", self.next); self.next += 1;
                   let rhs = self.int(depth - 1, ints, bools);
                   let mut i2 = ints.clone(); i2.push(x.clone());
                   format!("[(lam {x} {}) {rhs}]", self.boolean(depth - 1, &i2, bools)) }
        }
    }
}
fn mode_optimizer(seed: u64, limit: usize) -> Vec<serde_json::Value> {
    let mut fails = vec![];
    let mut rng = Rng(0xF1357AEA2E62A9C5 ^ seed.wrapping_mul(0xD6E8FEB86659FD93) | 1);
    let mut n = 0;
    let fixed = [
        // `let x = 1 / d; if c { x } else { 0 }` : a failing binding must fail whichever branch is taken
        "[(lam x (force [(force (builtin ifThenElse)) c (delay x) (delay (con integer 0))])) [(builtin divideInteger) (con integer 1) b]]",
        "[(lam x (force [(force (builtin ifThenElse)) c (delay (con integer 0)) (delay x)])) [(builtin divideInteger) a b]]",
        "[(lam x (force [(force (builtin ifThenElse)) c (delay x) (delay (error))])) [(builtin divideInteger) a b]]",
    ];
    // shapes on which the pattern-driven passes fire: the same constant operand of the same builtin three or more times
    // (builtin currying, arithmetic rewrites), the same BLS literal more than once (constant hoisting)
    let mut fixed: Vec<String> = fixed.iter().map(|s| s.to_string()).collect();
    for op in ["subtractInteger", "addInteger", "multiplyInteger", "divideInteger", "modInteger"] {
        for cst in [10i64, 1, 0, -4] {
            let first = |x: &str| format!("[(builtin {op}) (con integer {cst}) {x}]");
            let second = |x: &str| format!("[(builtin {op}) {x} (con integer {cst})]");
            for mk in [&first as &dyn Fn(&str) -> String, &second] {
                fixed.push(format!("[(builtin multiplyInteger) [(builtin multiplyInteger) {} {}] {}]", mk("a"), mk("b"), mk("[(builtin addInteger) a b]")));
                fixed.push(format!("[(builtin addInteger) {} [(builtin addInteger) {} [(builtin addInteger) {} {}]]]", mk("a"), mk("b"), mk("(con integer 3)"), mk("[(builtin multiplyInteger) a a]")));
            }
        }
    }
    for op in ["lessThanInteger", "lessThanEqualsInteger", "equalsInteger"] {
        let mk = |x: &str| format!("[(builtin {op}) (con integer 1) {x}]");
        fixed.push(format!("(force [(force (builtin ifThenElse)) {} (delay (force [(force (builtin ifThenElse)) {} (delay a) (delay b)])) (delay (force [(force (builtin ifThenElse)) {} (delay (con integer 7)) (delay (con integer 8))]))])", mk("a"), mk("b"), mk("[(builtin addInteger) a b]")));
    }
    {
        let grab = |kind: &str| -> Vec<String> {
            let mut files = vec![];
            walk(std::path::Path::new("/repo/crates/uplc/test_data/conformance/v3/builtin/semantics"), &mut files);
            let pat = format!("(con bls12_381_{kind}_element 0x");
            let mut lits = std::collections::BTreeSet::new();
            for f in files {
                if lits.len() >= 2 { break; }
                if let Ok(code) = std::fs::read_to_string(&f) {
                    if let Some(i) = code.find(&pat) {
                        if let Some(j) = code[i..].find(')') { lits.insert(code[i..i + j + 1].to_string()); }
                    }
                }
            }
            lits.into_iter().collect()
        };
        let (g1, g2) = (grab("G1"), grab("G2"));
        for (kind, lits) in [("G1", &g1), ("G2", &g2)] {
            for l in lits.iter() {
                fixed.push(format!("[(builtin bls12_381_{kind}_equal) {l} {l}]"));
                fixed.push(format!("[(builtin bls12_381_{kind}_equal) [(builtin bls12_381_{kind}_add) {l} {l}] [(builtin bls12_381_{kind}_add) {l} {l}]]"));
            }
        }
        if let (Some(a1), Some(a2)) = (g1.first(), g2.first()) {
            fixed.push(format!("(force [(force (builtin ifThenElse)) [(builtin bls12_381_G1_equal) {a1} {a1}] (delay [(builtin bls12_381_G2_equal) {a2} {a2}]) (delay (con bool False))])"));
        }
    }
    let total = 1500;
    for k in 0..total + fixed.len() {
        if fails.len() >= limit { break; }
        let body = if k < fixed.len() { fixed[k].to_string() } else {
            let depth = 2 + rng.below(3) as usize;
            let mut g = Gen { rng: &mut rng, next: 0 };
            g.int(depth, &vec!["a".to_string(), "b".to_string()], &vec!["c".to_string()])
        };
        let mut bad = false;
        for (a, b, c) in [(0i64, 0i64, "True"), (1, 0, "False"), (-3, 2, "True"), (5, -1, "False")] {
            n += 1;
            let src = format!("(program 1.1.0 [(lam a (lam b (lam c {body}))) (con integer {a}) (con integer {b}) (con bool {c})])");
            if let Some(f) = check_optimizer_text(&src) { fails.push(f); bad = true; break; }
        }
        // the same body as a FUNCTION: optimised once without knowing its arguments (what the compiler does with a
        // validator or a library function), then applied; compared with the unoptimised function on the same arguments
        if !bad {
            let fsrc = format!("(program 1.1.0 (lam a (lam b (lam c {body}))))");
            if let Ok(fprog) = uplc::parser::program(&fsrc) {
                let input = serde_json::json!({"function": fsrc});
                match std::panic::catch_unwind(std::panic::AssertUnwindSafe(|| uplc::optimize::aiken_optimize_and_intern(fprog.clone()))) {
                    Err(_) => fails.push(fail("optimizer", "the optimiser panicked", input, "an optimised program".into(), "panic".into())),
                    Ok(fopt) => {
                        for (a, b, c) in [(0i64, 0i64, true), (1, 0, false), (-3, 2, true), (5, -1, false), (1, 2, true), (7, 3, false)] {
                            n += 1;
                            let apply = |p: &Program<Name>| {
                                let mut q = p.clone();
                                for arg in [Term::integer(a.into()), Term::integer(b.into()), Term::bool(c)] { q = q.apply_term(&arg); }
                                q
                            };
                            let before = eval_named(&apply(&fprog));
                            let after = eval_named(&apply(&fopt));
                            let same = match (&before, &after) { (Ok(x), Ok(y)) => x == y, (Err(_), Err(_)) => true, _ => false };
                            if !same {
                                fails.push(fail("optimizer", "the optimised function evaluates differently on some argument", serde_json::json!({"function": fsrc, "args": [a, b], "flag": c}), format!("{before:?}"), format!("{after:?}  [optimised: {}]", fopt.to_pretty().split_whitespace().collect::<Vec<_>>().join(" "))));
                                break;
                            }
                        }
                    }
                }
            }
        }
    }
    println!("BOUNDS mode=optimizer {n} runs: {} pattern-shaped (failing let in a branch; one constant operand of one builtin three or more times; repeated BLS literals) + {total} random compiler-shaped programs (typed Int/Bool expressions of depth 2..4: let, if/else, arithmetic, division, comparisons, fail) x 4 argument tuples inline + 6 applied to the separately optimised function; result before vs after aiken_optimize_and_intern; seed {seed}", fixed.len());
    fails
}

// ------------------------------------------------------------------ mode: nopanic (C10)
fn mode_nopanic(seed: u64, limit: usize) -> Vec<serde_json::Value> {
    let mut fails = vec![];
    let mut memo = std::collections::HashMap::new();
    let mut n = 0;
    'outer: for size in 1..=4 {
        let ts = terms(size, 0, true, &mut memo);
        for t in ts.iter() {
            for (v, budget, sl) in [(VARIANTS[0], BIG, 200u32), (VARIANTS[3], ExBudget { mem: 350, cpu: 40000 }, 1)] {
                n += 1;
                let r = run_real(to_real(t), v, None, budget, sl);
                if let Some(p) = r.panicked {
                    fails.push(fail("nopanic", "evaluator panicked", serde_json::json!({"term": show(t), "language": v.lang, "protocol": v.pv, "slippage": sl, "budget": {"cpu": budget.cpu, "mem": budget.mem}}), "a value or an error".into(), format!("panic: {p}")));
                    if fails.len() >= limit {
                        break 'outer;
                    }
                }
            }
        }
    }
    let mut rng = Rng(0xA0761D6478BD642F ^ seed.wrapping_mul(0xE7037ED1A0B428DB) | 1);
    let mut m = 0;
    while fails.len() < limit && m < 30_000 {
        m += 1;
        let size = 3 + rng.below(16) as usize;
        let t = random_term(&mut rng, size, 0, true);
        let v = VARIANTS[rng.below(6) as usize];
        let sl = [1u32, 2, 200][rng.below(3) as usize];
        let r = run_real(to_real(&t), v, None, BIG, sl);
        if let Some(p) = r.panicked {
            fails.push(fail("nopanic", "evaluator panicked", serde_json::json!({"term": show(&t), "language": v.lang, "protocol": v.pv, "slippage": sl, "budget": {"cpu": BIG.cpu, "mem": BIG.mem}}), "a value or an error".into(), format!("panic: {p}")));
        }
    }
    println!("BOUNDS mode=nopanic exhaustive: open and closed terms of size<=4 incl. free indices 0, depth+1, depth+5 ({n} runs); random: {m} terms of size 3..18; seed {seed}");
    fails
}

// ------------------------------------------------------------------ mode: debruijn (C11)
/// reference: a de Bruijn term is convertible iff every variable index is >= 1 and <= number of enclosing lambdas
fn well_scoped(t: &T, depth: usize) -> bool {
    refcek::closed(t, depth)
}
fn strip(t: &Term<DeBruijn>) -> T {
    match t {
        Term::Var(i) => T::Var(i.inner()),
        Term::Lambda { body, .. } => T::Lam(Rc::new(strip(body))),
        Term::Apply { function, argument } => T::App(Rc::new(strip(function)), Rc::new(strip(argument))),
        Term::Delay(b) => T::Delay(Rc::new(strip(b))),
        Term::Force(b) => T::Force(Rc::new(strip(b))),
        Term::Constant(_) => T::Con(K::Unit),
        Term::Error => T::Error,
        Term::Builtin(_) => T::Builtin(B::AddInteger),
        Term::Constr { tag, fields } => T::Constr(*tag, fields.iter().map(strip).collect()),
        Term::Case { constr, branches } => T::Case(Rc::new(strip(constr)), branches.iter().map(strip).collect()),
    }
}
/// in a named term every variable must carry the unique of an ENCLOSING binder, namely the one its index pointed to
fn named_ok(db: &T, nm: &Term<Name>, binders: &mut Vec<isize>) -> bool {
    match (db, nm) {
        (T::Var(i), Term::Var(n)) => *i >= 1 && *i <= binders.len() && binders[binders.len() - *i] == isize::from(n.unique),
        (T::Lam(b), Term::Lambda { parameter_name, body }) => {
            binders.push(isize::from(parameter_name.unique));
            let r = named_ok(b, body, binders);
            binders.pop();
            r
        }
        (T::App(f, a), Term::Apply { function, argument }) => named_ok(f, function, binders) && named_ok(a, argument, binders),
        (T::Delay(b), Term::Delay(c)) | (T::Force(b), Term::Force(c)) => named_ok(b, c, binders),
        (T::Constr(t1, fs), Term::Constr { tag, fields }) => t1 == tag && fs.len() == fields.len() && fs.iter().zip(fields.iter()).all(|(a, b)| named_ok(a, b, binders)),
        (T::Case(s, bs), Term::Case { constr, branches }) => named_ok(s, constr, binders) && bs.len() == branches.len() && bs.iter().zip(branches.iter()).all(|(a, b)| named_ok(a, b, binders)),
        (T::Con(_), Term::Constant(_)) | (T::Error, Term::Error) | (T::Builtin(_), Term::Builtin(_)) => true,
        _ => false,
    }
}
fn check_debruijn(t: &T) -> Option<serde_json::Value> {
    let input = serde_json::json!({"term": to_real_db(t).to_pretty().split_whitespace().collect::<Vec<_>>().join(" ")});
    let prog = Program { version: (1, 1, 0), term: to_real_db(t) };
    let r = std::panic::catch_unwind(std::panic::AssertUnwindSafe(|| {
        let named: Result<Program<Name>, _> = prog.clone().try_into();
        named.ok().map(|n| {
            let back: Result<Program<DeBruijn>, _> = n.clone().try_into();
            (n, back.ok())
        })
    }));
    let ok = well_scoped(t, 0);
    match r {
        Err(_) => Some(fail("debruijn", "conversion panicked", input, "a program or an error".into(), "panic".into())),
        Ok(None) => {
            if ok {
                Some(fail("debruijn", "closed program rejected by the index->name conversion", input, "converted".into(), "error".into()))
            } else {
                None
            }
        }
        Ok(Some((named, back))) => {
            if !ok {
                return Some(fail("debruijn", "program with a free index accepted (silently bound to some binder)", input, "FreeIndex error".into(), named.to_pretty()));
            }
            if !named_ok(t, &named.term, &mut vec![]) {
                return Some(fail("debruijn", "a variable is named after a binder other than the one its index refers to", input, "binder preserved".into(), named.to_pretty()));
            }
            match back {
                None => Some(fail("debruijn", "named form of a closed program does not convert back", input, "round trip".into(), "error".into())),
                Some(b) => {
                    if strip(&b.term) != strip(&to_real_db(t)) {
                        Some(fail("debruijn", "index -> name -> index round trip changes a variable's binder", input, to_real_db(t).to_pretty(), b.to_pretty()))
                    } else {
                        None
                    }
                }
            }
        }
    }
}
fn mode_debruijn(seed: u64, limit: usize) -> Vec<serde_json::Value> {
    let mut fails = vec![];
    let mut memo = std::collections::HashMap::new();
    let mut n = 0;
    'outer: for size in 1..=5 {
        let ts = terms(size, 0, true, &mut memo);
        for t in ts.iter() {
            n += 1;
            if let Some(f) = check_debruijn(t) {
                fails.push(f);
                if fails.len() >= limit {
                    break 'outer;
                }
            }
        }
    }
    let mut rng = Rng(0x8EBC6AF09C88C6E3 ^ seed.wrapping_mul(0x589965CC75374CC3) | 1);
    let mut m = 0;
    while fails.len() < limit && m < 30_000 {
        m += 1;
        let size = 4 + rng.below(20) as usize;
        let open = rng.below(2) == 0;
        let t = random_term(&mut rng, size, 0, open);
        if let Some(f) = check_debruijn(&t) {
            fails.push(f);
        }
    }
    println!("BOUNDS mode=debruijn exhaustive: open and closed de Bruijn terms of size<=5 ({n}); random: {m} terms of size 4..23; seed {seed}");
    fails
}

// ------------------------------------------------------------------ replay of a recorded failing input
fn parse_ref_term(s: &str) -> Option<T> {
    // recorded terms are printed with the real pretty-printer; re-read them with the real parser (names i_N / i)
    let prog = uplc::parser::program(&format!("(program 1.1.0 {s})")).ok()?;
    fn conv(t: &Term<Name>, scope: &mut Vec<String>) -> Option<T> {
        Some(match t {
            Term::Var(n) => {
                // printed NamedDeBruijn variables look like `i_5`: the index is in the name
                let idx = n.text.rsplit('_').next().and_then(|x| x.parse::<usize>().ok())?;
                T::Var(idx)
            }
            Term::Lambda { body, .. } => T::Lam(Rc::new(conv(body, scope)?)),
            Term::Apply { function, argument } => T::App(Rc::new(conv(function, scope)?), Rc::new(conv(argument, scope)?)),
            Term::Delay(b) => T::Delay(Rc::new(conv(b, scope)?)),
            Term::Force(b) => T::Force(Rc::new(conv(b, scope)?)),
            Term::Error => T::Error,
            Term::Builtin(DefaultFunction::AddInteger) => T::Builtin(B::AddInteger),
            Term::Builtin(DefaultFunction::LessThanInteger) => T::Builtin(B::LessThanInteger),
            Term::Builtin(DefaultFunction::IfThenElse) => T::Builtin(B::IfThenElse),
            Term::Builtin(_) => return None,
            Term::Constant(c) => T::Con(match &**c {
                Constant::Integer(i) => K::Int(i64::try_from(i).ok()?),
                Constant::Bool(b) => K::Bool(*b),
                Constant::Unit => K::Unit,
                Constant::ProtoList(_, xs) => K::ListInt(xs.iter().filter_map(|x| if let Constant::Integer(i) = x { i64::try_from(i).ok() } else { None }).collect()),
                Constant::ProtoPair(_, _, a, b) => match (&**a, &**b) {
                    (Constant::Integer(i), Constant::Bool(b)) => K::PairIntBool(i64::try_from(i).ok()?, *b),
                    _ => return None,
                },
                _ => return None,
            }),
            Term::Constr { tag, fields } => T::Constr(*tag, fields.iter().map(|f| conv(f, scope)).collect::<Option<Vec<_>>>()?),
            Term::Case { constr, branches } => T::Case(Rc::new(conv(constr, scope)?), branches.iter().map(|f| conv(f, scope)).collect::<Option<Vec<_>>>()?),
        })
    }
    conv(&prog.term, &mut vec![])
}

fn main() {
    if std::env::var("REPLAY_VERBOSE").is_err() {
        std::panic::set_hook(Box::new(|_| {}));
    }
    let args: Vec<String> = std::env::args().collect();
    let get = |k: &str, d: u64| args.iter().position(|a| a == k).and_then(|i| args.get(i + 1)).and_then(|x| x.parse().ok()).unwrap_or(d);
    let seed = get("--seed", 0);
    let limit = get("--limit", 3) as usize;
    let cmd = args.get(1).map(|s| s.as_str()).unwrap_or("");
    let run_mode = |mode: &str| -> Vec<serde_json::Value> {
        match mode {
            "cek" => mode_cek(seed, limit, false),
            "budget" => mode_budget(seed, limit),
            "corpus" => mode_corpus(seed, limit),
            "builtins" => mode_builtins(seed, limit),
            "nopanic" => mode_nopanic(seed, limit),
            "flat" => mode_flat(seed, limit),
            "optimizer" => mode_optimizer(seed, limit),
            "optprobe" => { let src = std::fs::read_to_string("/tmp/optprobe.uplc").unwrap_or_default(); check_optimizer_text(&src).into_iter().collect() }
            "interner" => mode_interner(seed, limit),
            "named" => mode_named(seed, limit),
            "datacodec" => mode_datacodec(seed, limit),
            "shrinker" => mode_shrinker(seed, limit),
            "proptest" => mode_proptest(seed, limit),
            "exmem" => mode_exmem(seed, limit),
            "txsim" => mode_txsim(seed, limit),
            "allbuiltins" => mode_allbuiltins(seed, limit),
            // the builtin grid, keeping only crashes (for the never-crash property a wrong value is not a violation)
            "builtins_np" => mode_builtins(seed, 1000).into_iter().filter(|f| f["what"].as_str().unwrap_or("").contains("panicked")).take(limit).collect(),
            "debruijn" => mode_debruijn(seed, limit),
            _ => {
                eprintln!("unknown mode {mode}");
                std::process::exit(2)
            }
        }
    };
    match cmd {
        "search" => {
            let mut any = false;
            for mode in args[2].split(',') {
                set_last(format!("{mode}: (start)"));
                let fails = match std::panic::catch_unwind(std::panic::AssertUnwindSafe(|| run_mode(mode))) {
                    Ok(f) => f,
                    Err(p) => {
                        let msg = p.downcast_ref::<String>().cloned().or_else(|| p.downcast_ref::<&str>().map(|s| s.to_string())).unwrap_or_default();
                        let last = LAST.with(|l| l.borrow().clone());
                        vec![fail(mode, "the real code panicked while the harness was building or printing this input", serde_json::json!({"last_input": last}), "no panic".into(), format!("panic: {msg}"))]
                    }
                };
                println!("SUMMARY mode={mode} failures={}", fails.len());
                any |= !fails.is_empty();
            }
            std::process::exit(if any { 1 } else { 0 });
        }
        "replay" => {
            let txt = std::fs::read_to_string(&args[2]).expect("replay file");
            let j: serde_json::Value = serde_json::from_str(&txt).expect("json");
            let fi = &j["failing_input"];
            if fi.is_null() {
                println!("REPLAY no failing input recorded for obligation {} (verifier output is in the file)", j["obligation"]);
                std::process::exit(2);
            }
            let mode = fi["mode"].as_str().unwrap_or("");
            let input = &fi["input"];
            let again: Option<serde_json::Value> = match mode {
                "cek" | "budget" | "nopanic" => {
                    let t = parse_ref_term(input["term"].as_str().unwrap_or(""));
                    let v = Variant { lang: input["language"].as_u64().unwrap_or(3) as u8, pv: input["protocol"].as_u64().unwrap_or(11) as u16 };
                    match (t, mode) {
                        (Some(t), "cek") => check_cek_term(&t, v, input["slippage"].as_u64().unwrap_or(200) as u32),
                        (Some(t), "budget") => check_budget_term(&t, v),
                        (Some(t), _) => {
                            let r = run_real(to_real(&t), v, None, BIG, input["slippage"].as_u64().unwrap_or(200) as u32);
                            r.panicked.map(|p| fail("nopanic", "evaluator panicked", input.clone(), "no panic".into(), p))
                        }
                        _ => None,
                    }
                }
                // table-driven modes are cheap: re-run the whole mode and look for the same input
                m => run_mode(m).into_iter().find(|f| f["input"] == *input),
            };
            match again {
                Some(_) => {
                    println!("REPLAY reproduced on the current tree");
                    std::process::exit(1)
                }
                None => {
                    println!("REPLAY not reproduced on the current tree");
                    std::process::exit(0)
                }
            }
        }
        _ => {
            eprintln!("usage: verif-replay search <modes> [--seed N] [--limit K] | replay <file>");
            std::process::exit(2)
        }
    }
}
