//! Reference CEK machine, written from the Plutus Core specification (not from aiken's code).
//! Used only by the replay / bounded-search tool: it is the executable oracle against which concrete
//! inputs are run on the REAL evaluator.  Fragment: all term constructors, integer/bool/unit/list/pair
//! constants, and three builtins (addInteger, lessThanInteger, ifThenElse) to exercise partial
//! application and the force discipline.
use std::rc::Rc;

#[derive(Clone, Debug, PartialEq, Eq, Hash)]
pub enum K {
    Int(i64),
    Bool(bool),
    Unit,
    /// list of integers
    ListInt(Vec<i64>),
    PairIntBool(i64, bool),
}

#[derive(Clone, Copy, Debug, PartialEq, Eq, Hash)]
pub enum B {
    AddInteger,
    LessThanInteger,
    IfThenElse,
}

impl B {
    pub fn arity(self) -> usize {
        match self {
            B::AddInteger | B::LessThanInteger => 2,
            B::IfThenElse => 3,
        }
    }
    pub fn forces(self) -> u32 {
        match self {
            B::IfThenElse => 1,
            _ => 0,
        }
    }
}

#[derive(Clone, Debug, PartialEq, Eq, Hash)]
pub enum T {
    Var(usize),
    Lam(Rc<T>),
    App(Rc<T>, Rc<T>),
    Delay(Rc<T>),
    Force(Rc<T>),
    Con(K),
    Error,
    Builtin(B),
    Constr(usize, Vec<T>),
    Case(Rc<T>, Vec<T>),
}

#[derive(Clone, Debug)]
pub enum V {
    Con(K),
    Delay(Rc<T>, Env),
    Lam(Rc<T>, Env),
    Builtin(B, u32, Vec<V>),
    Constr(usize, Vec<V>),
}

pub type Env = Rc<Vec<V>>;

enum Frame {
    Force,
    AwaitFunTerm(Env, Rc<T>),
    AwaitArg(V),
    AwaitFunValue(V),
    Constr(Env, usize, Vec<T>, Vec<V>), // remaining fields (in order), done values
    Cases(Env, Vec<T>),
}

#[derive(Clone, Copy, Debug, Default, PartialEq, Eq)]
pub struct Steps {
    pub constant: u64,
    pub var: u64,
    pub lambda: u64,
    pub apply: u64,
    pub delay: u64,
    pub force: u64,
    pub builtin: u64,
    pub constr: u64,
    pub case: u64,
    pub builtin_calls: u64,
}

impl Steps {
    pub fn total(&self) -> u64 {
        self.constant + self.var + self.lambda + self.apply + self.delay + self.force + self.builtin + self.constr + self.case
    }
}

#[derive(Debug)]
pub enum Outcome {
    Value(T, Steps),
    Fail(Steps),
    /// step limit of the reference reached (non-terminating or too long): no verdict
    Unknown,
}

/// `case_on_constants`: ledger semantics variant E (PlutusV3 from protocol version 11).
pub fn eval(term: &T, case_on_constants: bool, max_steps: u64) -> Outcome {
    let mut steps = Steps::default();
    let mut stack: Vec<Frame> = vec![];
    enum S {
        Compute(Env, Rc<T>),
        Return(V),
    }
    let mut st = S::Compute(Rc::new(vec![]), Rc::new(term.clone()));
    loop {
        if steps.total() > max_steps {
            return Outcome::Unknown;
        }
        st = match st {
            S::Compute(env, t) => match &*t {
                T::Var(i) => {
                    steps.var += 1;
                    // index 1 = innermost binding = last pushed
                    if *i >= 1 && *i <= env.len() {
                        S::Return(env[env.len() - *i].clone())
                    } else {
                        return Outcome::Fail(steps);
                    }
                }
                T::Lam(b) => {
                    steps.lambda += 1;
                    S::Return(V::Lam(b.clone(), env))
                }
                T::Delay(b) => {
                    steps.delay += 1;
                    S::Return(V::Delay(b.clone(), env))
                }
                T::App(f, a) => {
                    steps.apply += 1;
                    stack.push(Frame::AwaitFunTerm(env.clone(), a.clone()));
                    S::Compute(env, f.clone())
                }
                T::Force(b) => {
                    steps.force += 1;
                    stack.push(Frame::Force);
                    S::Compute(env, b.clone())
                }
                T::Con(k) => {
                    steps.constant += 1;
                    S::Return(V::Con(k.clone()))
                }
                T::Error => return Outcome::Fail(steps),
                T::Builtin(b) => {
                    steps.builtin += 1;
                    S::Return(V::Builtin(*b, 0, vec![]))
                }
                T::Constr(tag, fields) => {
                    steps.constr += 1;
                    if fields.is_empty() {
                        S::Return(V::Constr(*tag, vec![]))
                    } else {
                        let rest = fields[1..].to_vec();
                        stack.push(Frame::Constr(env.clone(), *tag, rest, vec![]));
                        S::Compute(env, Rc::new(fields[0].clone()))
                    }
                }
                T::Case(scrut, branches) => {
                    steps.case += 1;
                    stack.push(Frame::Cases(env.clone(), branches.clone()));
                    S::Compute(env, scrut.clone())
                }
            },
            S::Return(v) => match stack.pop() {
                None => return Outcome::Value(discharge(&v), steps),
                Some(Frame::Force) => match v {
                    V::Delay(b, env) => S::Compute(env, b),
                    V::Builtin(b, forces, args) => {
                        if forces < b.forces() {
                            let forces = forces + 1;
                            if forces == b.forces() && args.len() == b.arity() {
                                match call(b, &args, &mut steps) {
                                    Some(v) => S::Return(v),
                                    None => return Outcome::Fail(steps),
                                }
                            } else {
                                S::Return(V::Builtin(b, forces, args))
                            }
                        } else {
                            return Outcome::Fail(steps);
                        }
                    }
                    _ => return Outcome::Fail(steps),
                },
                Some(Frame::AwaitFunTerm(env, a)) => {
                    stack.push(Frame::AwaitArg(v));
                    S::Compute(env, a)
                }
                Some(Frame::AwaitArg(f)) => match apply(f, v, &mut steps) {
                    Applied::Compute(env, b) => S::Compute(env, b),
                    Applied::Return(v) => S::Return(v),
                    Applied::Fail => return Outcome::Fail(steps),
                },
                Some(Frame::AwaitFunValue(arg)) => match apply(v, arg, &mut steps) {
                    Applied::Compute(env, b) => S::Compute(env, b),
                    Applied::Return(v) => S::Return(v),
                    Applied::Fail => return Outcome::Fail(steps),
                },
                Some(Frame::Constr(env, tag, rest, mut done)) => {
                    done.push(v);
                    if rest.is_empty() {
                        S::Return(V::Constr(tag, done))
                    } else {
                        let next = rest[0].clone();
                        stack.push(Frame::Constr(env.clone(), tag, rest[1..].to_vec(), done));
                        S::Compute(env, Rc::new(next))
                    }
                }
                Some(Frame::Cases(env, branches)) => {
                    let (tag, args): (usize, Vec<V>) = match v {
                        V::Constr(tag, fields) => (tag, fields),
                        V::Con(k) if case_on_constants => {
                            let (tag, args, max) = match k {
                                K::Unit => (0usize, vec![], 1usize),
                                K::Bool(false) => (0, vec![], 2),
                                K::Bool(true) => (1, vec![], 2),
                                K::Int(n) => {
                                    if n < 0 {
                                        return Outcome::Fail(steps);
                                    }
                                    (n as usize, vec![], usize::MAX)
                                }
                                K::ListInt(items) => {
                                    if items.is_empty() {
                                        (1, vec![], 2)
                                    } else {
                                        (0, vec![V::Con(K::Int(items[0])), V::Con(K::ListInt(items[1..].to_vec()))], 2)
                                    }
                                }
                                K::PairIntBool(a, b) => (0, vec![V::Con(K::Int(a)), V::Con(K::Bool(b))], 1),
                            };
                            if branches.len() > max {
                                return Outcome::Fail(steps);
                            }
                            (tag, args)
                        }
                        _ => return Outcome::Fail(steps),
                    };
                    if tag >= branches.len() {
                        return Outcome::Fail(steps);
                    }
                    // branch applied to the fields in order: first field is applied first
                    for a in args.into_iter().rev() {
                        stack.push(Frame::AwaitFunValue(a));
                    }
                    S::Compute(env, Rc::new(branches[tag].clone()))
                }
            },
        };
    }
}

enum Applied {
    Compute(Env, Rc<T>),
    Return(V),
    Fail,
}

fn apply(f: V, arg: V, steps: &mut Steps) -> Applied {
    match f {
        V::Lam(b, env) => {
            let mut e = (*env).clone();
            e.push(arg);
            Applied::Compute(Rc::new(e), b)
        }
        V::Builtin(b, forces, mut args) => {
            // a builtin takes a term argument only once all its forces were consumed, and only while unsaturated
            if forces == b.forces() && args.len() < b.arity() {
                args.push(arg);
                if args.len() == b.arity() {
                    match call(b, &args, steps) {
                        Some(v) => Applied::Return(v),
                        None => Applied::Fail,
                    }
                } else {
                    Applied::Return(V::Builtin(b, forces, args))
                }
            } else {
                Applied::Fail
            }
        }
        _ => Applied::Fail,
    }
}

fn call(b: B, args: &[V], steps: &mut Steps) -> Option<V> {
    steps.builtin_calls += 1;
    let int = |v: &V| match v {
        V::Con(K::Int(i)) => Some(*i),
        _ => None,
    };
    match b {
        B::AddInteger => Some(V::Con(K::Int(int(&args[0])?.checked_add(int(&args[1])?)?))),
        B::LessThanInteger => Some(V::Con(K::Bool(int(&args[0])? < int(&args[1])?))),
        B::IfThenElse => match &args[0] {
            V::Con(K::Bool(true)) => Some(args[1].clone()),
            V::Con(K::Bool(false)) => Some(args[2].clone()),
            _ => None,
        },
    }
}

/// Read-back (`dischargeCekValue`): the value as a closed term.
pub fn discharge(v: &V) -> T {
    match v {
        V::Con(k) => T::Con(k.clone()),
        V::Delay(b, env) => T::Delay(Rc::new(subst(0, env, b))),
        V::Lam(b, env) => T::Lam(Rc::new(subst(1, env, b))),
        V::Builtin(b, forces, args) => {
            let mut t = T::Builtin(*b);
            for _ in 0..*forces {
                t = T::Force(Rc::new(t));
            }
            for a in args {
                t = T::App(Rc::new(t), Rc::new(discharge(a)));
            }
            t
        }
        V::Constr(tag, fields) => T::Constr(*tag, fields.iter().map(discharge).collect()),
    }
}

fn subst(depth: usize, env: &Env, t: &T) -> T {
    match t {
        T::Var(i) => {
            if *i <= depth || *i - depth > env.len() {
                T::Var(*i)
            } else {
                discharge(&env[env.len() - (*i - depth)])
            }
        }
        T::Lam(b) => T::Lam(Rc::new(subst(depth + 1, env, b))),
        T::App(f, a) => T::App(Rc::new(subst(depth, env, f)), Rc::new(subst(depth, env, a))),
        T::Delay(b) => T::Delay(Rc::new(subst(depth, env, b))),
        T::Force(b) => T::Force(Rc::new(subst(depth, env, b))),
        T::Constr(tag, fs) => T::Constr(*tag, fs.iter().map(|f| subst(depth, env, f)).collect()),
        T::Case(s, bs) => T::Case(Rc::new(subst(depth, env, s)), bs.iter().map(|b| subst(depth, env, b)).collect()),
        other => other.clone(),
    }
}

/// is every variable bound (index between 1 and the number of enclosing binders)?
pub fn closed(t: &T, depth: usize) -> bool {
    match t {
        T::Var(i) => *i >= 1 && *i <= depth,
        T::Lam(b) => closed(b, depth + 1),
        T::App(f, a) => closed(f, depth) && closed(a, depth),
        T::Delay(b) | T::Force(b) => closed(b, depth),
        T::Constr(_, fs) => fs.iter().all(|f| closed(f, depth)),
        T::Case(s, bs) => closed(s, depth) && bs.iter().all(|b| closed(b, depth)),
        _ => true,
    }
}
