#!/bin/sh
# Run once after a fresh restore, offline.  Nothing is fetched: the checks re-extract from /repo and
# call the pre-installed verus / cargo-kani on every run.  This only creates scratch directories and
# warms the Kani harness crate's build (if present) so that the first check is not charged for it.
cd "$(dirname "$0")" || exit 1
mkdir -p build evidence replays
command -v verus >/dev/null || { echo "verus not on PATH"; exit 1; }
if [ -f kani/Cargo.toml ]; then
  cp -f /repo/Cargo.lock kani/Cargo.lock 2>/dev/null
  (cd kani && CARGO_NET_OFFLINE=true timeout 900 cargo kani -Z stubbing -Z function-contracts --harness warmup --output-format terse >/dev/null 2>&1 || true)
fi
if [ -f replay/Cargo.toml ]; then
  (cd replay && cp -f /repo/Cargo.lock Cargo.lock 2>/dev/null; CARGO_NET_OFFLINE=true timeout 1200 cargo build --offline --release >/dev/null 2>&1 || true)
fi
if [ -f replayp/Cargo.toml ]; then
  (cd replayp && cp -f /repo/Cargo.lock Cargo.lock 2>/dev/null; CARGO_NET_OFFLINE=true timeout 1800 cargo build --offline --release >/dev/null 2>&1 || true)
fi
echo setup-ok
