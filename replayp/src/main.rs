//! BOUNDED layer for the aiken-project side (C18): executable oracles run against the real crates at /repo.
//! Everything found here is a bounded result (stated pools / sizes), never a proof.
//!
//!   verif-replayp search <modes> [--seed N] [--limit K]      modes: applyparam
//!   verif-replayp replay <file>
use aiken_project::blueprint::{
    definitions::{Definitions, Reference},
    parameter::Parameter,
    schema::{Annotated, Constructor, Data, Declaration, Items, Schema},
    validator::Validator,
    Blueprint,
};
use num_bigint::BigInt;
use std::rc::Rc;
use uplc::{
    ast::{Constant, Data as D, DeBruijn, Program, SerializableProgram, Term},
    PlutusData,
};

fn fail(mode: &str, what: &str, input: serde_json::Value, expected: String, got: String) -> serde_json::Value {
    let j = serde_json::json!({"mode": mode, "what": what, "input": input, "expected": expected, "got": got});
    println!("FAILING-INPUT {}", j);
    j
}

fn inline(d: Data) -> Declaration<Data> {
    Declaration::Inline(Box::new(d))
}
fn ann<T>(t: T) -> Annotated<T> {
    Annotated { title: None, description: None, annotated: t }
}
fn constr(index: usize, fields: Vec<Declaration<Data>>) -> Annotated<Constructor> {
    ann(Constructor { index, fields: fields.into_iter().map(ann).collect() })
}
fn reference(name: &str) -> Declaration<Data> {
    Declaration::Referenced(Reference::new(name))
}

/// the definitions every case runs under: Int, Bytes, Pair (a two-field record), Rec (a recursive list-like type)
fn definitions() -> Definitions<Annotated<Schema>> {
    let mut d = Definitions::new();
    d.insert(&Reference::new("Int"), ann(Schema::Data(Data::Integer)));
    d.insert(&Reference::new("Bytes"), ann(Schema::Data(Data::Bytes)));
    d.insert(&Reference::new("Ref"), ann(Schema::Data(Data::AnyOf(vec![constr(0, vec![reference("Bytes"), reference("Int")])]))));
    d.insert(
        &Reference::new("Rec"),
        ann(Schema::Data(Data::AnyOf(vec![constr(0, vec![]), constr(1, vec![reference("Int"), reference("Rec")])]))),
    );
    // a definition that is not a Data schema: referring to it from a Data position must be an error
    d.insert(&Reference::new("Unit"), ann(Schema::Unit));
    d
}

fn schema_pool() -> Vec<(String, Data)> {
    let opt_int = Data::AnyOf(vec![constr(0, vec![inline(Data::Integer)]), constr(1, vec![])]);
    vec![
        ("integer".into(), Data::Integer),
        ("bytes".into(), Data::Bytes),
        ("opaque".into(), Data::Opaque),
        ("list<integer>".into(), Data::List(Items::One(inline(Data::Integer)))),
        ("list<#Int>".into(), Data::List(Items::One(reference("Int")))),
        ("tuple(integer,bytes)".into(), Data::List(Items::Many(vec![ann(inline(Data::Integer)), ann(inline(Data::Bytes))]))),
        ("tuple()".into(), Data::List(Items::Many(vec![]))),
        ("map<bytes,integer>".into(), Data::Map(inline(Data::Bytes), inline(Data::Integer))),
        ("anyOf[0(),1()]".into(), Data::AnyOf(vec![constr(0, vec![]), constr(1, vec![])])),
        ("anyOf[0(integer),1()]".into(), opt_int.clone()),
        ("anyOf[0(bytes,integer)]".into(), Data::AnyOf(vec![constr(0, vec![inline(Data::Bytes), inline(Data::Integer)])])),
        ("anyOf[1(integer)]".into(), Data::AnyOf(vec![constr(1, vec![inline(Data::Integer)])])),
        ("anyOf[7(integer)]".into(), Data::AnyOf(vec![constr(7, vec![inline(Data::Integer)])])),
        ("anyOf[0(anyOf[0(integer),1()])]".into(), Data::AnyOf(vec![constr(0, vec![inline(opt_int.clone())])])),
        ("list<anyOf[0(integer),1()]>".into(), Data::List(Items::One(inline(opt_int)))),
        ("anyOf[]".into(), Data::AnyOf(vec![])),
        ("#Ref".into(), Data::AnyOf(vec![constr(0, vec![reference("Ref")])])),
        ("#Rec".into(), Data::List(Items::One(reference("Rec")))),
    ]
}

fn value_pool() -> Vec<PlutusData> {
    let i = |n: i64| D::integer(BigInt::from(n));
    let b = |s: &[u8]| D::bytestring(s.to_vec());
    let mut v = vec![
        i(0),
        i(-1),
        D::integer(BigInt::from(1u8) << 70),
        b(b""),
        b(b"ab"),
        D::list(vec![]),
        D::list(vec![i(1)]),
        D::list(vec![i(1), i(2)]),
        D::list(vec![i(1), b(b"ab")]),
        D::list(vec![b(b"ab"), i(1)]),
        D::list(vec![i(1), b(b"ab"), i(3)]),
        D::map(vec![]),
        D::map(vec![(b(b"k"), i(1))]),
        D::map(vec![(i(1), b(b"k"))]),
        D::map(vec![(b(b"k"), i(1)), (b(b"l"), b(b"x"))]),
    ];
    for ix in [0u64, 1, 2, 6, 7, 8, 127, 128] {
        for fields in [vec![], vec![i(5)], vec![b(b"ab")], vec![b(b"ab"), i(5)], vec![i(5), b(b"ab")], vec![i(1), i(2), i(3)]] {
            v.push(D::constr(ix, fields));
        }
    }
    // nested shapes
    v.push(D::constr(0, vec![D::constr(0, vec![i(1)])]));
    v.push(D::constr(0, vec![D::constr(1, vec![])]));
    v.push(D::constr(0, vec![D::constr(1, vec![i(1)])]));
    v.push(D::constr(0, vec![D::constr(0, vec![b(b"ab"), i(5)])]));
    v.push(D::constr(0, vec![D::constr(0, vec![b(b"ab")])]));
    v.push(D::list(vec![D::constr(0, vec![i(1)]), D::constr(1, vec![])]));
    v.push(D::list(vec![D::constr(0, vec![i(1)]), D::constr(1, vec![i(1)])]));
    v.push(D::list(vec![D::constr(1, vec![i(1), D::constr(0, vec![])]), D::constr(0, vec![])]));
    v.push(D::list(vec![D::constr(1, vec![i(1), D::constr(1, vec![])])]));
    v
}

/// the constructor index a Data constructor denotes (canonical CBOR tag forms only)
fn constr_index(c: &pallas_primitives::alonzo::Constr<PlutusData>) -> Option<u64> {
    match (c.tag, c.any_constructor) {
        (121..=127, None) => Some(c.tag - 121),
        (1280..=1400, None) => Some(c.tag - 1280 + 7),
        (102, Some(ix)) => Some(ix),
        _ => None,
    }
}

/// Independent oracle (CIP-57 reading): does `v` conform to `s`?  None = the walk needs a reference that does not
/// resolve to a Data schema (outcome not specified by the property beyond "an error, not a panic").
fn conforms(s: &Data, defs: &Definitions<Annotated<Schema>>, v: &PlutusData, fuel: usize) -> Option<bool> {
    if fuel == 0 {
        return None;
    }
    let resolve = |d: &'_ Declaration<Data>| -> Option<Data> {
        match d {
            Declaration::Inline(x) => Some((**x).clone()),
            Declaration::Referenced(r) => match defs.try_lookup(r) {
                Some(Annotated { annotated: Schema::Data(x), .. }) => Some(x.clone()),
                _ => None,
            },
        }
    };
    match s {
        Data::Opaque => Some(true),
        Data::Integer => Some(matches!(v, PlutusData::BigInt(_))),
        Data::Bytes => Some(matches!(v, PlutusData::BoundedBytes(_))),
        Data::List(Items::One(item)) => {
            let item = resolve(item)?;
            match v {
                PlutusData::Array(xs) => {
                    for x in xs.iter() {
                        if !conforms(&item, defs, x, fuel - 1)? {
                            return Some(false);
                        }
                    }
                    Some(true)
                }
                _ => Some(false),
            }
        }
        Data::List(Items::Many(items)) => {
            let mut rs = vec![];
            for it in items {
                rs.push(resolve(&it.annotated)?);
            }
            match v {
                PlutusData::Array(xs) => {
                    if xs.len() != rs.len() {
                        return Some(false);
                    }
                    for (x, r) in xs.iter().zip(rs.iter()) {
                        if !conforms(r, defs, x, fuel - 1)? {
                            return Some(false);
                        }
                    }
                    Some(true)
                }
                _ => Some(false),
            }
        }
        Data::Map(k, w) => {
            let k = resolve(k)?;
            let w = resolve(w)?;
            match v {
                PlutusData::Map(kvs) => {
                    for (a, b) in kvs.iter() {
                        if !conforms(&k, defs, a, fuel - 1)? || !conforms(&w, defs, b, fuel - 1)? {
                            return Some(false);
                        }
                    }
                    Some(true)
                }
                _ => Some(false),
            }
        }
        Data::AnyOf(cs) => {
            let mut resolved = vec![];
            for c in cs {
                let mut fs = vec![];
                for f in &c.annotated.fields {
                    fs.push(resolve(&f.annotated)?);
                }
                resolved.push((c.annotated.index as u64, fs));
            }
            match v {
                PlutusData::Constr(c) => {
                    let ix = match constr_index(c) {
                        Some(ix) => ix,
                        None => return Some(false),
                    };
                    for (cix, fs) in &resolved {
                        if *cix == ix {
                            if fs.len() != c.fields.len() {
                                return Some(false);
                            }
                            for (x, r) in c.fields.iter().zip(fs.iter()) {
                                if !conforms(r, defs, x, fuel - 1)? {
                                    return Some(false);
                                }
                            }
                            return Some(true);
                        }
                    }
                    Some(false)
                }
                _ => Some(false),
            }
        }
    }
}

fn guarded<R>(f: impl FnOnce() -> R) -> Result<R, String> {
    std::panic::catch_unwind(std::panic::AssertUnwindSafe(f)).map_err(|p| {
        p.downcast_ref::<String>().cloned().or_else(|| p.downcast_ref::<&str>().map(|s| s.to_string())).unwrap_or_default()
    })
}

fn base_program() -> Program<DeBruijn> {
    // (lam a (lam b (lam c b)))
    let var = |i: usize| Term::Var(Rc::new(DeBruijn::new(i)));
    let lam = |b: Term<DeBruijn>| Term::Lambda { parameter_name: Rc::new(DeBruijn::new(0)), body: Rc::new(b) };
    Program { version: (1, 1, 0), term: lam(lam(lam(var(2)))) }
}

fn wrap(v: u8, p: Program<DeBruijn>) -> SerializableProgram {
    match v {
        1 => SerializableProgram::PlutusV1Program(p),
        2 => SerializableProgram::PlutusV2Program(p),
        _ => SerializableProgram::PlutusV3Program(p),
    }
}

fn ledger_hash(tag: u8, cbor: &[u8]) -> Vec<u8> {
    use cryptoxide::{blake2b::Blake2b, digest::Digest};
    let mut want = [0u8; 28];
    let mut h = Blake2b::new(28);
    h.input(&[tag]);
    h.input(cbor);
    h.result(&mut want);
    want.to_vec()
}

fn hexs(b: &[u8]) -> String {
    b.iter().map(|x| format!("{x:02x}")).collect()
}

fn param(d: Data) -> Parameter {
    Parameter { title: None, schema: Declaration::Inline(Box::new(Schema::Data(d))) }
}

fn mode_applyparam(_seed: u64, limit: usize) -> Vec<serde_json::Value> {
    let mut fails = vec![];
    let defs = definitions();
    let schemas = schema_pool();
    let values = value_pool();
    let mut n = 0usize;
    // ---- (1) acceptance = conformance, never a panic
    'outer: for (sname, s) in &schemas {
        for v in &values {
            if fails.len() >= limit {
                break 'outer;
            }
            n += 1;
            let input = serde_json::json!({"schema": sname, "data": D::to_hex(v.clone())});
            let p = param(s.clone());
            let got = guarded(|| p.validate(&defs, &Constant::Data(v.clone())).is_ok());
            let want = conforms(s, &defs, v, 16);
            match (got, want) {
                (Err(msg), _) => fails.push(fail("applyparam", "schema validation panicked", input, "accept or reject".into(), format!("panic: {msg}"))),
                (Ok(g), Some(w)) if g != w => fails.push(fail(
                    "applyparam",
                    "a parameter is accepted iff it conforms to the declared schema",
                    input,
                    (if w { "accepted" } else { "rejected" }).into(),
                    (if g { "accepted" } else { "rejected" }).into(),
                )),
                (Ok(true), None) => fails.push(fail("applyparam", "accepted although a schema reference does not resolve", input, "rejected".into(), "accepted".into())),
                _ => {}
            }
        }
    }
    // non-Data schemas and dangling references: a Data parameter is rejected, never a panic
    let odd: Vec<(String, Declaration<Schema>)> = vec![
        ("unit".into(), Declaration::Inline(Box::new(Schema::Unit))),
        ("boolean".into(), Declaration::Inline(Box::new(Schema::Boolean))),
        ("integer (non-data)".into(), Declaration::Inline(Box::new(Schema::Integer))),
        ("bytes (non-data)".into(), Declaration::Inline(Box::new(Schema::Bytes))),
        ("string".into(), Declaration::Inline(Box::new(Schema::String))),
        (
            "pair".into(),
            Declaration::Inline(Box::new(Schema::Pair(
                Declaration::Inline(Box::new(Schema::Data(Data::Integer))),
                Declaration::Inline(Box::new(Schema::Data(Data::Integer))),
            ))),
        ),
        ("list (non-data)".into(), Declaration::Inline(Box::new(Schema::List(Items::One(Declaration::Inline(Box::new(Schema::Data(Data::Integer)))))))),
        ("#Missing".into(), Declaration::Referenced(Reference::new("Missing"))),
        ("#Unit".into(), Declaration::Referenced(Reference::new("Unit"))),
    ];
    for (sname, s) in &odd {
        for v in values.iter().take(16) {
            if fails.len() >= limit {
                break;
            }
            n += 1;
            let input = serde_json::json!({"schema": sname, "data": D::to_hex(v.clone())});
            let p = Parameter { title: None, schema: s.clone() };
            match guarded(|| p.validate(&defs, &Constant::Data(v.clone())).is_ok()) {
                Err(msg) => fails.push(fail("applyparam", "schema validation panicked", input, "reject".into(), format!("panic: {msg}"))),
                Ok(true) => fails.push(fail("applyparam", "a Data parameter accepted against a non-Data / unresolved schema", input, "rejected".into(), "accepted".into())),
                Ok(false) => {}
            }
        }
    }
    // Data schemas that mention a dangling or non-Data reference: an error, never a panic, never accepted when reached
    let dangling: Vec<(String, Data)> = vec![
        ("list<#Missing>".into(), Data::List(Items::One(reference("Missing")))),
        ("list<#Unit>".into(), Data::List(Items::One(reference("Unit")))),
        ("anyOf[0(#Missing)]".into(), Data::AnyOf(vec![constr(0, vec![reference("Missing")])])),
        ("map<#Missing,integer>".into(), Data::Map(reference("Missing"), inline(Data::Integer))),
        ("tuple(#Missing)".into(), Data::List(Items::Many(vec![ann(reference("Missing"))]))),
    ];
    for (sname, s) in &dangling {
        for v in &values {
            if fails.len() >= limit {
                break;
            }
            n += 1;
            let input = serde_json::json!({"schema": sname, "data": D::to_hex(v.clone())});
            let p = param(s.clone());
            match guarded(|| p.validate(&defs, &Constant::Data(v.clone())).is_ok()) {
                Err(msg) => fails.push(fail("applyparam", "schema validation panicked", input, "reject".into(), format!("panic: {msg}"))),
                Ok(true) => fails.push(fail("applyparam", "accepted although a schema reference does not resolve", input, "rejected".into(), "accepted".into())),
                Ok(false) => {}
            }
        }
    }
    // ---- (2) histories of applications: first parameter consumed, code = old code applied, hash/JSON consistent after each step
    let i = |k: i64| D::integer(BigInt::from(k));
    let seqs: Vec<(Vec<Data>, Vec<PlutusData>)> = vec![
        (vec![Data::Integer, Data::Bytes], vec![i(42), D::bytestring(vec![1, 2])]),
        (vec![Data::Bytes, Data::Integer, Data::Opaque], vec![D::bytestring(vec![]), i(-7), D::list(vec![i(1)])]),
        (vec![Data::AnyOf(vec![constr(0, vec![inline(Data::Bytes), inline(Data::Integer)])]), Data::Integer], vec![D::constr(0, vec![D::bytestring(vec![9]), i(0)]), i(1)]),
        (vec![Data::Integer, Data::Integer], vec![i(1), i(2)]),
        (vec![Data::Integer], vec![i(1)]),
    ];
    for (schemas, args) in &seqs {
        for ver in [1u8, 2, 3] {
            if fails.len() >= limit {
                break;
            }
            n += 1;
            let input = serde_json::json!({"parameters": schemas.len(), "plutus_version": ver, "args": args.iter().map(|a| D::to_hex(a.clone())).collect::<Vec<_>>()});
            let r = guarded(|| -> Result<(), String> {
                let mut val = Validator {
                    title: "m.v.spend".to_string(),
                    description: None,
                    datum: None,
                    redeemer: Some(param(Data::Opaque)),
                    parameters: schemas.iter().map(|s| param(s.clone())).collect(),
                    program: wrap(ver, base_program()),
                    definitions: Definitions::new(),
                };
                let mut expected_term = base_program().term;
                for (k, a) in args.iter().enumerate() {
                    // a non-conforming value for the FIRST remaining parameter is rejected (it may well conform to a later one)
                    let wrong = if matches!(schemas[k], Data::Integer) { D::bytestring(vec![7]) } else { i(99) };
                    if !matches!(schemas[k], Data::Opaque) && val.clone().apply(&defs, &wrong).is_ok() {
                        return Err(format!("step {k}: a value that does not conform to parameter #{k} was accepted"));
                    }
                    let before = val.clone();
                    val = val.apply(&defs, a).map_err(|e| format!("step {k}: conforming parameter rejected: {e:?}"))?;
                    if val.parameters != before.parameters[1..].to_vec() {
                        return Err(format!("step {k}: remaining parameters are not the previous ones minus the first"));
                    }
                    expected_term = Term::Apply { function: Rc::new(expected_term), argument: Rc::new(Term::Constant(Rc::new(Constant::Data(a.clone())))) };
                    let expected = wrap(ver, Program { version: (1, 1, 0), term: expected_term.clone() });
                    if val.program != expected {
                        return Err(format!("step {k}: the new code is not the old code applied to the parameter (or the Plutus version changed)"));
                    }
                    if val.title != before.title || val.datum != before.datum || val.redeemer != before.redeemer {
                        return Err(format!("step {k}: title/datum/redeemer changed"));
                    }
                    // save -> load between the steps, as `aiken blueprint apply -o` does; the published hash is the ledger hash
                    let js = serde_json::to_value(&val).map_err(|e| format!("{e}"))?;
                    let cbor = val.program.inner().to_cbor().map_err(|e| format!("{e}"))?;
                    let want_hash = hexs(&ledger_hash(ver, &cbor));
                    if js["hash"].as_str() != Some(&want_hash) {
                        return Err(format!("step {k}: published hash {} is not the ledger hash {want_hash} of the new code", js["hash"]));
                    }
                    if js["compiledCode"].as_str() != Some(&hexs(&cbor)) {
                        return Err(format!("step {k}: published compiledCode is not the new code"));
                    }
                    let back: Validator<SerializableProgram> = serde_json::from_value(js).map_err(|e| format!("step {k}: saved validator does not load: {e}"))?;
                    if back.program != val.program || back.parameters != val.parameters {
                        return Err(format!("step {k}: validator changed across blueprint save/load"));
                    }
                    val.program = back.program;
                    val.parameters = back.parameters;
                }
                if val.clone().apply(&defs, &i(0)).is_ok() {
                    return Err("applying to a validator without remaining parameters succeeded".to_string());
                }
                Ok(())
            });
            match r {
                Err(msg) => fails.push(fail("applyparam", "parameter application panicked", input, "no panic".into(), format!("panic: {msg}"))),
                Ok(Err(e)) => fails.push(fail("applyparam", "successive parameter applications", input, "first parameter consumed; code = old code applied; hash = ledger hash".into(), e)),
                Ok(Ok(())) => {}
            }
        }
    }
    // ---- (3) through Blueprint::apply_parameter, from JSON: every handler of the selected validator is updated, no other
    for ver in [1u8, 2, 3] {
        if fails.len() >= limit {
            break;
        }
        n += 1;
        let input = serde_json::json!({"blueprint": "m.v.{spend,else} + m.w.mint + m.vx.spend + mm.v.spend + m.v_2.else", "plutus_version": ver});
        let r = guarded(|| -> Result<(), String> {
            let mk = |title: &str| Validator {
                title: title.to_string(),
                description: None,
                datum: None,
                redeemer: Some(param(Data::Opaque)),
                parameters: vec![Parameter { title: Some("p".into()), schema: Declaration::Referenced(Reference::new("Int")) }, param(Data::Bytes)],
                program: wrap(ver, base_program()),
                definitions: Definitions::new(),
            };
            let vals = vec![mk("m.v.spend"), mk("m.v.else"), mk("m.w.mint"), mk("m.vx.spend"), mk("mm.v.spend"), mk("m.v_2.else")];
            let mut defs_json = serde_json::Map::new();
            defs_json.insert("Int".into(), serde_json::json!({"dataType": "integer"}));
            let bp_json = serde_json::json!({
                "preamble": {"title": "a/b", "version": "0.0.0", "plutusVersion": format!("v{ver}")},
                "validators": serde_json::to_value(&vals).map_err(|e| format!("{e}"))?,
                "definitions": defs_json,
            });
            let mut bp: Blueprint = serde_json::from_value(bp_json.clone()).map_err(|e| format!("blueprint does not load: {e}"))?;
            if bp.apply_parameter(Some("m"), Some("v"), &D::bytestring(vec![1])).is_ok() {
                return Err("a byte string was accepted for an integer parameter".into());
            }
            bp.apply_parameter(Some("m"), Some("v"), &D::integer(BigInt::from(5))).map_err(|e| format!("conforming parameter rejected: {e:?}"))?;
            let want = mk("m.v.spend").apply(&definitions(), &D::integer(BigInt::from(5))).map_err(|e| format!("{e:?}"))?;
            for v in &bp.validators {
                let touched = v.title.starts_with("m.v.");
                if touched && (v.program != want.program || v.parameters != want.parameters) {
                    return Err(format!("{}: not updated to the applied validator", v.title));
                }
                if !touched && (v.program != mk("x").program || v.parameters.len() != 2) {
                    return Err(format!("{}: changed although another validator was selected", v.title));
                }
            }
            // a definition set to null in the file is not a usable definition: an error, not a panic
            let mut broken = bp_json.clone();
            broken["definitions"]["Int"] = serde_json::Value::Null;
            if let Ok(mut bp2) = serde_json::from_value::<Blueprint>(broken) {
                if bp2.apply_parameter(Some("m"), Some("v"), &D::integer(BigInt::from(5))).is_ok() {
                    return Err("parameter accepted against a null definition".into());
                }
            }
            Ok(())
        });
        match r {
            Err(msg) => fails.push(fail("applyparam", "Blueprint::apply_parameter panicked", input, "a value or an error".into(), format!("panic: {msg}"))),
            Ok(Err(e)) => fails.push(fail("applyparam", "Blueprint::apply_parameter", input, "selected validator's handlers updated consistently".into(), e)),
            Ok(Ok(())) => {}
        }
    }
    println!(
        "BOUNDS mode=applyparam {n} cases: {} Data schemas (inline, referenced, recursive, tuples, maps, anyOf incl. index 7 and empty) x {} Data values (ints, bytes, lists, maps, constructors 0..128 with 0-3 fields, nested); non-Data and dangling schemas; {} application histories x Plutus V1/V2/V3 with blueprint save/load between steps and independent blake2b-224 hash; Blueprint::apply_parameter from JSON incl. a null definition",
        schemas.len(),
        values.len(),
        seqs.len()
    );
    fails
}

// ------------------------------------------------------------------ mode: determinism (C09): the same sources built several times in one process
struct Quiet;
impl aiken_project::telemetry::EventListener for Quiet {}

fn copy_dir(from: &std::path::Path, to: &std::path::Path) -> std::io::Result<()> {
    std::fs::create_dir_all(to)?;
    for e in std::fs::read_dir(from)? {
        let e = e?;
        let (p, q) = (e.path(), to.join(e.file_name()));
        if p.is_dir() {
            if e.file_name() == "build" { continue; }
            copy_dir(&p, &q)?;
        } else {
            std::fs::copy(&p, &q)?;
        }
    }
    Ok(())
}

fn build_once(src: &std::path::Path, work: &std::path::Path, tracing: aiken_lang::ast::Tracing) -> Result<String, String> {
    // always the same scratch location, so that nothing but the process-local state (hash-map seeds, caches) differs
    let _ = std::fs::remove_dir_all(work);
    copy_dir(src, work).map_err(|e| format!("copy: {e}"))?;
    let mut project = aiken_project::Project::new(work.to_path_buf(), Quiet).map_err(|e| format!("project: {e:?}"))?;
    let out = work.join("plutus.json");
    project
        .build(false, tracing, out.clone(), aiken_project::options::BlueprintExport::OnlyBinaryInterface, None)
        .map_err(|e| format!("build failed with {} errors", e.len()))?;
    std::fs::read_to_string(&out).map_err(|e| format!("no blueprint: {e}"))
}

fn mode_determinism(_seed: u64, limit: usize) -> Vec<serde_json::Value> {
    let mut fails = vec![];
    let root = std::path::Path::new("/repo/examples/acceptance_tests");
    let mut dirs: Vec<std::path::PathBuf> = std::fs::read_dir(root).map(|rd| rd.filter_map(|e| e.ok()).map(|e| e.path()).collect()).unwrap_or_default();
    dirs.sort();
    // a fixture written for this oracle: same-named constants and validators in different modules, a cycle of three
    // mutually recursive functions, labelled expectations in different orders
    let fixture = std::path::Path::new(env!("CARGO_MANIFEST_DIR")).join("fixtures").join("histories");
    dirs.insert(0, fixture.clone());
    let work = std::env::temp_dir().join(format!("verif-determinism-{}", std::process::id()));
    let mut n = 0;
    let mut skipped: Vec<String> = vec![];
    for d in dirs {
        if fails.len() >= limit { break; }
        let toml = std::fs::read_to_string(d.join("aiken.toml")).unwrap_or_default();
        if toml.contains("[[dependencies]]") || !d.join("validators").is_dir() { continue; }
        let name = d.file_name().map(|s| s.to_string_lossy().to_string()).unwrap_or_default();
        let rebuilds = if d == fixture { 8 } else { 3 };
        for (tname, tracing) in [("silent", aiken_lang::ast::Tracing::silent()), ("compact", aiken_lang::ast::Tracing::All(aiken_lang::ast::TraceLevel::Compact)), ("verbose", aiken_lang::ast::Tracing::verbose())] {
            let input = serde_json::json!({"project": if d == fixture { "fixtures/histories".to_string() } else { format!("examples/acceptance_tests/{name}") }, "tracing": tname});
            let runs: Vec<Result<Result<String, String>, String>> = (0..rebuilds).map(|_| guarded(|| build_once(&d, &work, tracing))).collect();
            n += 1;
            match &runs[0] {
                Err(p) => { fails.push(fail("determinism", "the build panicked", input, "a blueprint or diagnostics".into(), format!("panic: {p}"))); continue }
                Ok(Err(e)) => { skipped.push(format!("{name}/{tname}: {e}")); continue }   // does not build on this tree (not a determinism question)
                Ok(Ok(first)) => {
                    for (k, r) in runs.iter().enumerate().skip(1) {
                        let same = matches!(r, Ok(Ok(s)) if s == first);
                        if !same {
                            let diff = match r { Ok(Ok(s)) => { let i = s.bytes().zip(first.bytes()).position(|(a, b)| a != b).unwrap_or(0); format!("blueprint #{k} differs from #0 at byte {i}: ..{}..", s.chars().skip(i.saturating_sub(30)).take(80).collect::<String>()) }, other => format!("{other:?}").chars().take(200).collect() };
                            fails.push(fail("determinism", "building the same sources again in the same process gives a different blueprint", input.clone(), "byte-identical blueprint".into(), diff));
                            break;
                        }
                    }
                }
            }
        }
    }
    // ---- a re-used code generator against a fresh one: every unit test of every dependency-free acceptance project is
    // compiled (a) by ONE generator instance, in module/definition order, the way `aiken check` does, and (b) by a
    // generator created just for it; the programs must be identical
    let mut n_tests = 0;
    let mut n_projects = 0;
    let mut dirs: Vec<std::path::PathBuf> = std::fs::read_dir(root).map(|rd| rd.filter_map(|e| e.ok()).map(|e| e.path()).collect()).unwrap_or_default();
    dirs.sort();
    dirs.insert(0, fixture.clone());
    for d in dirs {
        if fails.len() >= limit { break; }
        let toml = std::fs::read_to_string(d.join("aiken.toml")).unwrap_or_default();
        if toml.contains("[[dependencies]]") || !d.join("aiken.toml").is_file() { continue; }
        let name = if d == fixture { "fixtures/histories".to_string() } else { format!("examples/acceptance_tests/{}", d.file_name().map(|s| s.to_string_lossy().to_string()).unwrap_or_default()) };
        let levels: Vec<(&str, aiken_lang::ast::Tracing)> = if d == fixture {
            vec![("silent", aiken_lang::ast::Tracing::silent()), ("compact", aiken_lang::ast::Tracing::All(aiken_lang::ast::TraceLevel::Compact)), ("verbose", aiken_lang::ast::Tracing::verbose())]
        } else {
            vec![("verbose", aiken_lang::ast::Tracing::verbose())]
        };
        let input = serde_json::json!({"project": name, "what": "re-used vs fresh generator"});
        let r = guarded(|| -> Result<(usize, Option<String>), String> {
            let _ = std::fs::remove_dir_all(&work);
            copy_dir(&d, &work).map_err(|e| format!("copy: {e}"))?;
            let mut project = aiken_project::Project::new(work.to_path_buf(), Quiet).map_err(|e| format!("project: {e:?}"))?;
            project
                .check(true, None, false, false, 42, 10, aiken_project::telemetry::CoverageMode::default(), aiken_lang::ast::Tracing::verbose(), false, None)
                .map_err(|e| format!("does not type-check ({} errors)", e.len()))?;
            let mut modules = project.modules();
            modules.sort_by(|a, b| a.name.cmp(&b.name));
            let mut count = 0;
            for (lname, tracing) in &levels {
                for reverse in [false, true] {
                    // every program of the project, in this order, on ONE generator ...
                    let mut shared = project.new_generator(*tracing);
                    let mut order: Vec<(&aiken_project::module::CheckedModule, &aiken_lang::ast::TypedDefinition)> = vec![];
                    for m in &modules { for def in m.ast.definitions() { order.push((m, def)); } }
                    if reverse { order.reverse(); }
                    for (m, def) in order {
                        // ... against a generator created just for it
                        let (what, reused, fresh) = match def {
                            aiken_lang::ast::Definition::Test(t) if t.arguments.is_empty() => (
                                format!("test {}.{}", m.name, t.name),
                                shared.generate_raw(&t.body, &[], &m.name).to_pretty(),
                                project.new_generator(*tracing).generate_raw(&t.body, &[], &m.name).to_pretty(),
                            ),
                            aiken_lang::ast::Definition::Validator(v) => (
                                format!("validator {}.{}", m.name, v.name),
                                shared.generate(v, &m.name).to_pretty(),
                                project.new_generator(*tracing).generate(v, &m.name).to_pretty(),
                            ),
                            _ => continue,
                        };
                        count += 1;
                        if reused != fresh {
                            return Ok((count, Some(format!("{what} at trace level {lname}, definitions in {} order", if reverse { "reverse" } else { "source" }))));
                        }
                    }
                }
            }
            Ok((count, None))
        });
        match r {
            Err(p) => fails.push(fail("determinism", "code generation panicked", input, "programs".into(), format!("panic: {p}"))),
            Ok(Err(_)) => {}
            Ok(Ok((c, None))) => { n_tests += c; n_projects += 1; }
            Ok(Ok((_, Some(which)))) => fails.push(fail("determinism", "a re-used code generator emits a different program than a fresh one", input, "identical programs".into(), which)),
        }
    }
    let _ = std::fs::remove_dir_all(&work);
    println!("BOUNDS mode=determinism {n_tests} programs (unit tests and validators) of {n_projects} projects (the dependency-free acceptance projects + the histories fixture at 3 trace levels), in source and in reverse order: one shared generator vs a fresh generator per program, compared as text");
    if !skipped.is_empty() { println!("NOTE mode=determinism {} pairs did not build and were skipped, e.g. {}", skipped.len(), skipped[0]); }
    let n = n - skipped.len();
    println!("BOUNDS mode=determinism {n} (project, trace level) pairs: every dependency-free acceptance project with validators built 3 times, the histories fixture 8 times, in one process (fresh randomly-seeded hash maps each time) at trace levels silent, compact and verbose; blueprints compared byte for byte");
    fails
}

// ------------------------------------------------------------------ mode: malformed (C20): near-valid inputs to every decoder / parser: a value or an error, never a panic
struct Xs(u64);
impl Xs {
    fn next(&mut self) -> u64 { self.0 ^= self.0 << 13; self.0 ^= self.0 >> 7; self.0 ^= self.0 << 17; self.0 }
    fn below(&mut self, n: usize) -> usize { (self.next() % n.max(1) as u64) as usize }
}
fn mutate_bytes(rng: &mut Xs, b: &[u8]) -> Vec<u8> {
    let mut v = b.to_vec();
    match rng.below(6) {
        0 => { v.truncate(rng.below(v.len() + 1)); }
        1 => { if !v.is_empty() { let i = rng.below(v.len()); v[i] = [0x00, 0xff, 0x7f, 0x80][rng.below(4)]; } }
        2 => { if !v.is_empty() { let i = rng.below(v.len()); v[i] = v[i].wrapping_add(1); } }
        3 => { let i = rng.below(v.len() + 1); v.insert(i, rng.next() as u8); }
        4 => { if !v.is_empty() { let i = rng.below(v.len()); v.remove(i); } }
        _ => { if !v.is_empty() { let i = rng.below(v.len()); let bit = 1u8 << rng.below(8); v[i] ^= bit; } }
    }
    v
}
fn mutate_text(rng: &mut Xs, t: &str, words: &[&str]) -> String {
    let cs: Vec<char> = t.chars().collect();
    let mut v = cs.clone();
    match rng.below(7) {
        0 => { v.truncate(rng.below(v.len() + 1)); }
        1 => { if !v.is_empty() { let i = rng.below(v.len()); v.remove(i); } }
        2 => { if !v.is_empty() { let i = rng.below(v.len()); let c = v[i]; v.insert(i, c); } }
        3 => { let i = rng.below(v.len() + 1); let w: Vec<char> = words[rng.below(words.len())].chars().collect(); for (k, c) in w.into_iter().enumerate() { v.insert(i + k, c); } }
        4 => { if !v.is_empty() { let i = rng.below(v.len()); v[i] = ['(', ')', '[', ']', '{', '}', '"', '\\', '#', '0', '\u{0}', 'é', ' '][rng.below(13)]; } }
        5 => { // numbers: duplicate or add a sign, or replace a literal by a boundary value
            let s: String = v.iter().collect();
            let pos: Vec<usize> = s.char_indices().filter(|(i, c)| c.is_ascii_digit() && (*i == 0 || !s.as_bytes()[*i - 1].is_ascii_alphanumeric())).map(|(i, _)| i).collect();
            if !pos.is_empty() {
                let i = pos[rng.below(pos.len())];
                let end = s[i..].find(|c: char| !(c.is_ascii_alphanumeric() || c == '_')).map(|k| i + k).unwrap_or(s.len());
                let repl = ["+-", "--", "-+", "+", "256", "0x100", "1_000", "-1", "18446744073709551616", "340282366920938463463374607431768211456", "0x", "1e9", "00", "9223372036854775808"][rng.below(14)];
                return if repl.ends_with('-') || repl.ends_with('+') { format!("{}{}{}", &s[..i], repl, &s[i..]) } else { format!("{}{}{}", &s[..i], repl, &s[end..]) };
            }
        }
        _ => { // replace one identifier-like token by another word
            let s: String = v.iter().collect();
            let toks: Vec<&str> = s.split(|c: char| !(c.is_alphanumeric() || c == '_')).filter(|x| x.len() > 2).collect();
            if !toks.is_empty() { let t0 = toks[rng.below(toks.len())]; return s.replacen(t0, words[rng.below(words.len())], 1); }
        }
    }
    v.into_iter().collect()
}
fn mutate_json(rng: &mut Xs, j: &serde_json::Value, depth: usize) -> serde_json::Value {
    use serde_json::Value as J;
    let junk = |rng: &mut Xs| -> J { [J::Null, J::Bool(true), serde_json::json!(0), serde_json::json!(-1), serde_json::json!(""), serde_json::json!("zz"), serde_json::json!([]), serde_json::json!({}), serde_json::json!({"$ref": "#/definitions/Nope"}), serde_json::json!(18446744073709551615u64), serde_json::json!({"$ref": "#"}), serde_json::json!({"$ref": ""}), serde_json::json!({"$ref": "ByteArray"}), serde_json::json!({"$ref": "#/definitions"})][rng.below(14)].clone() };
    match j {
        J::Object(m) if !m.is_empty() && depth < 12 => {
            let keys: Vec<String> = m.keys().cloned().collect();
            let k = keys[rng.below(keys.len())].clone();
            let mut m2 = m.clone();
            match rng.below(4) {
                0 => { m2.remove(&k); }
                1 => { m2.insert(k, junk(rng)); }
                _ => { let sub = mutate_json(rng, &m[&k], depth + 1); m2.insert(k, sub); }
            }
            J::Object(m2)
        }
        J::Array(a) if !a.is_empty() && depth < 12 => {
            let i = rng.below(a.len());
            let mut a2 = a.clone();
            match rng.below(4) {
                0 => { a2.remove(i); }
                1 => { a2[i] = junk(rng); }
                2 => { let x = a2[i].clone(); a2.push(x); }
                _ => { a2[i] = mutate_json(rng, &a[i], depth + 1); }
            }
            J::Array(a2)
        }
        J::String(t) if rng.below(2) == 0 => { let cs: Vec<char> = t.chars().collect(); J::String(cs[..rng.below(cs.len() + 1)].iter().collect()) }
        _ => junk(rng),
    }
}
fn mode_malformed(seed: u64, limit: usize) -> Vec<serde_json::Value> {
    let mut fails = vec![];
    let mut rng = Xs(0x2545F4914F6CDD1D ^ seed.wrapping_mul(0x9E3779B97F4A7C15) | 1);
    let uplc_srcs = [
        "(program 1.1.0 [(lam x [(builtin addInteger) x (con integer 1)]) (con integer 41)])",
        "(program 1.0.0 (force (delay (con (list (pair integer bytestring)) [(1, #ff), (2, #)]))))",
        "(program 1.1.0 (case (constr 1 (con data (Constr 1 [I 2, B #ab, List [Map [(I 1, I 2)]]])) (con string \"a\\n\\\"b\")) (lam a a) (lam a (lam b (error)))))",
        "(program 1.1.0 [(force (builtin ifThenElse)) (con bool True) (con unit ()) (con bls12_381_G1_element 0xc00000000000000000000000000000000000000000000000000000000000000000000000000000000000000000000000))])",
    ];
    let words = ["builtin", "foo", "con", "integer", "addInteger", "program", "lam", "delay", "99999999999999999999999999", "bytestring", "data", "Constr", "list", "pair", "error", "case", "constr", "validator", "expect", "when", "is", "fn", "test", "use", "pub", "type", "->", "|>", "..", "#\"", "@\"", "0x"];
    let mut n = 0usize;
    // (a) + (b): UPLC text and the flat / CBOR / hex encodings of the programs it denotes
    for src in uplc_srcs {
        let prog = uplc::parser::program(src).ok();
        let encs: Option<(Vec<u8>, Vec<u8>, String)> = prog.as_ref().and_then(|p| { let db = p.clone().to_debruijn().ok()?; Some((db.to_flat().ok()?, db.to_cbor().ok()?, db.to_hex().ok()?)) });
        for _ in 0..400 {
            if fails.len() >= limit { break; }
            n += 1;
            let t = mutate_text(&mut rng, src, &words);
            if guarded(|| { let _ = uplc::parser::program(&t); }).is_err() {
                fails.push(fail("malformed", "the UPLC parser panicked", serde_json::json!({"uplc": t}), "a program or a parse error".into(), "panic".into()));
            }
            if let Some((flat, cbor, hexs)) = &encs {
                let f2 = mutate_bytes(&mut rng, flat);
                if let Err(p) = guarded(|| { let _ = Program::<DeBruijn>::from_flat(&f2); let _ = Program::<uplc::ast::NamedDeBruijn>::from_flat(&f2); let _ = Program::<uplc::ast::Name>::from_flat(&f2); }) {
                    fails.push(fail("malformed", "the flat decoder panicked", serde_json::json!({"flat_hex": hexs_of(&f2)}), "a program or an error".into(), format!("panic: {p}")));
                }
                let c2 = mutate_bytes(&mut rng, cbor);
                if let Err(p) = guarded(|| { let mut buf = vec![]; let _ = Program::<DeBruijn>::from_cbor(&c2, &mut buf); }) {
                    fails.push(fail("malformed", "the CBOR program decoder panicked", serde_json::json!({"cbor_hex": hexs_of(&c2)}), "a program or an error".into(), format!("panic: {p}")));
                }
                let h2 = mutate_text(&mut rng, hexs, &["zz", "0", "ff", "g"]);
                if let Err(p) = guarded(|| { let (mut a, mut b) = (vec![], vec![]); let _ = Program::<DeBruijn>::from_hex(&h2, &mut a, &mut b); }) {
                    fails.push(fail("malformed", "the hex program decoder panicked", serde_json::json!({"hex": h2}), "a program or an error".into(), format!("panic: {p}")));
                }
            }
        }
    }
    // (c) Aiken sources: lexer + parser + formatter
    let mut aiken_srcs: Vec<String> = vec![];
    for f in ["lib/alpha.ak", "lib/beta.ak", "validators/one.ak"] {
        if let Ok(t) = std::fs::read_to_string(std::path::Path::new(env!("CARGO_MANIFEST_DIR")).join("fixtures").join("histories").join(f)) { aiken_srcs.push(t); }
    }
    aiken_srcs.push("pub const bytes = #[1, 2, 255]\n\npub const hex = #\"00ff\"\n\npub const text = @\"héllo\"\n\npub fn f(x: Int) -> Int {\n  when x is {\n    0 -> 1_000\n    0xff -> -1\n    _ -> x * 2 + 10 / 3\n  }\n}\n\ntest t() {\n  f(0) == 1000 && bytes == #[0x01, 0x02, 0xff]\n}\n".to_string());
    for src in &aiken_srcs {
        for _ in 0..150 {
            if fails.len() >= limit { break; }
            n += 1;
            let t = mutate_text(&mut rng, src, &words);
            let r = guarded(|| {
                if let Ok((module, extra)) = aiken_lang::parser::module(&t, aiken_lang::ast::ModuleKind::Lib) {
                    let mut out = String::new();
                    aiken_lang::format::pretty(&mut out, module, extra, &t);
                }
            });
            if let Err(p) = r {
                fails.push(fail("malformed", "the Aiken parser / formatter panicked", serde_json::json!({"aiken": t}), "a module or diagnostics".into(), format!("panic: {p}")));
            }
        }
    }
    // (d) blueprint JSON and parameter application
    if let Ok(txt) = std::fs::read_to_string("/repo/examples/gift_card/plutus.json") {
        if let Ok(j) = serde_json::from_str::<serde_json::Value>(&txt) {
            let params = [D::bytestring(vec![1]), D::integer(BigInt::from(1)), D::constr(0, vec![D::bytestring(vec![2]), D::integer(BigInt::from(0))]), D::constr(0, vec![]), D::list(vec![])];
            // every string member in turn: emptied, cut to 1 / 9 / 13 characters, replaced by a foreign string
            fn string_paths(j: &serde_json::Value, path: &mut Vec<String>, out: &mut Vec<Vec<String>>) {
                match j {
                    serde_json::Value::Object(m) => for (k, v) in m { path.push(k.clone()); string_paths(v, path, out); path.pop(); },
                    serde_json::Value::Array(a) => for (i, v) in a.iter().enumerate() { path.push(i.to_string()); string_paths(v, path, out); path.pop(); },
                    serde_json::Value::String(_) => out.push(path.clone()),
                    _ => {}
                }
            }
            fn set_at(j: &mut serde_json::Value, path: &[String], v: serde_json::Value) {
                if path.is_empty() { *j = v; return; }
                match j {
                    serde_json::Value::Object(m) => if let Some(x) = m.get_mut(&path[0]) { set_at(x, &path[1..], v) },
                    serde_json::Value::Array(a) => if let Some(x) = path[0].parse::<usize>().ok().and_then(|i| a.get_mut(i)) { set_at(x, &path[1..], v) },
                    _ => {}
                }
            }
            let mut paths = vec![];
            string_paths(&j, &mut vec![], &mut paths);
            let mut sweep: Vec<String> = vec![];
            for (k, pth) in paths.iter().enumerate() {
                // all `$ref`s, titles, hashes and code of the first validators; a sample of the rest
                if !(pth.last().map(|x| x == "$ref").unwrap_or(false) || k % 7 == 0) { continue; }
                let orig = { let mut cur = &j; for seg in pth { cur = match cur { serde_json::Value::Object(m) => &m[seg], serde_json::Value::Array(a) => &a[seg.parse::<usize>().unwrap_or(0)], _ => cur }; } cur.as_str().unwrap_or("").to_string() };
                for cut in [0usize, 1, 9, 13] {
                    let mut j2 = j.clone();
                    set_at(&mut j2, pth, serde_json::Value::String(orig.chars().take(cut).collect()));
                    sweep.push(j2.to_string());
                }
                let mut j2 = j.clone();
                set_at(&mut j2, pth, serde_json::Value::String("zz".into()));
                sweep.push(j2.to_string());
                if sweep.len() > 900 { break; }
            }
            for text in &sweep {
                if fails.len() >= limit { break; }
                n += 1;
                let r = guarded(|| {
                    if let Ok(mut bp) = serde_json::from_str::<Blueprint>(text) {
                        for p in &params { let _ = bp.apply_parameter(Some("oneshot"), Some("gift_card"), p); let _ = bp.apply_parameter(None, None, p); }
                        let _ = serde_json::to_string(&bp);
                    }
                });
                if let Err(p) = r {
                    fails.push(fail("malformed", "blueprint loading / parameter application panicked", serde_json::json!({"blueprint_json": text.chars().take(1500).collect::<String>()}), "a blueprint or an error".into(), format!("panic: {p}")));
                }
            }
            for _ in 0..600 {
                if fails.len() >= limit { break; }
                n += 1;
                let mut j2 = mutate_json(&mut rng, &j, 0);
                if rng.below(3) == 0 { j2 = mutate_json(&mut rng, &j2, 0); }
                let text = j2.to_string();
                let r = guarded(|| {
                    if let Ok(mut bp) = serde_json::from_str::<Blueprint>(&text) {
                        for p in &params {
                            let _ = bp.apply_parameter(Some("oneshot"), Some("gift_card"), p);
                            let _ = bp.apply_parameter(Some("multi"), None, p);
                            let _ = bp.apply_parameter(None, None, p);
                        }
                        let _ = serde_json::to_string(&bp);
                    }
                });
                if let Err(p) = r {
                    fails.push(fail("malformed", "blueprint loading / parameter application panicked", serde_json::json!({"blueprint_json": text.chars().take(1500).collect::<String>()}), "a blueprint or an error".into(), format!("panic: {p}")));
                }
            }
        }
    }
    println!("BOUNDS mode=malformed {n} inputs, seed {seed}: single and double mutations (truncate, delete, duplicate, splice keywords, flip bits/bytes, drop or retype JSON members, numbers replaced by boundary literals and doubled signs, every `$ref` and a sample of the other strings cut short) of 4 UPLC programs (text, flat, CBOR, hex; three binder forms), 4 Aiken modules (lexer, parser, formatter) and the gift_card blueprint (load, apply_parameter, save); nesting depth as in the originals (no deep-recursion inputs)");
    fails
}
fn hexs_of(b: &[u8]) -> String { b.iter().map(|x| format!("{x:02x}")).collect() }

fn main() {
    let args: Vec<String> = std::env::args().collect();
    let cmd = args.get(1).map(|s| s.as_str()).unwrap_or("");
    let opt = |k: &str, d: u64| args.iter().position(|a| a == k).and_then(|i| args.get(i + 1)).and_then(|v| v.parse().ok()).unwrap_or(d);
    let seed = opt("--seed", 0);
    let limit = opt("--limit", 3) as usize;
    // the real code's panics are caught and reported as failing inputs: keep the default hook quiet
    std::panic::set_hook(Box::new(|_| {}));
    let run_mode = |mode: &str| -> Vec<serde_json::Value> {
        match mode {
            "applyparam" => mode_applyparam(seed, limit),
            "determinism" => mode_determinism(seed, limit),
            "malformed" => mode_malformed(seed, limit),
            "applyparam_np" => mode_applyparam(seed, 100_000).into_iter().filter(|f| f["what"].as_str().unwrap_or("").contains("panicked")).take(limit).collect(),
            _ => {
                eprintln!("unknown mode {mode}");
                std::process::exit(2)
            }
        }
    };
    match cmd {
        "search" => {
            let mut any = false;
            for mode in args[2].split(',') {
                let fails = match std::panic::catch_unwind(std::panic::AssertUnwindSafe(|| run_mode(mode))) {
                    Ok(f) => f,
                    Err(p) => {
                        let msg = p.downcast_ref::<String>().cloned().or_else(|| p.downcast_ref::<&str>().map(|s| s.to_string())).unwrap_or_default();
                        vec![fail(mode, "the real code panicked while the harness was building or printing an input", serde_json::json!({}), "no panic".into(), format!("panic: {msg}"))]
                    }
                };
                println!("SUMMARY mode={mode} failures={}", fails.len());
                any |= !fails.is_empty();
            }
            std::process::exit(if any { 1 } else { 0 });
        }
        "replay" => {
            let txt = std::fs::read_to_string(&args[2]).expect("replay file");
            let j: serde_json::Value = serde_json::from_str(&txt).expect("json");
            let fi = &j["failing_input"];
            if fi.is_null() {
                println!("REPLAY no failing input recorded for obligation {} (verifier output is in the file)", j["obligation"]);
                std::process::exit(2);
            }
            let mode = fi["mode"].as_str().unwrap_or("");
            let input = &fi["input"];
            let again = run_mode_all(mode).into_iter().find(|f| f["input"] == *input);
            match again {
                Some(_) => {
                    println!("REPLAY reproduced on the current tree");
                    std::process::exit(1)
                }
                None => {
                    println!("REPLAY not reproduced on the current tree");
                    std::process::exit(0)
                }
            }
        }
        _ => {
            eprintln!("usage: verif-replayp search <modes> [--seed N] [--limit K] | replay <file>");
            std::process::exit(2)
        }
    }
}

fn run_mode_all(mode: &str) -> Vec<serde_json::Value> {
    match mode {
        "applyparam" => mode_applyparam(0, 100_000),
        "determinism" => mode_determinism(0, 100_000),
        "malformed" => mode_malformed(0, 100_000),
        "applyparam_np" => mode_applyparam(0, 100_000).into_iter().filter(|f| f["what"].as_str().unwrap_or("").contains("panicked")).collect(),
        _ => vec![],
    }
}
