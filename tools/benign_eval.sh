#!/bin/bash
# usage: benign_eval.sh <patch.diff> <props...> : apply a behaviour-preserving change to /repo, run checks, undo.
# Expected: every check exits 0 (or 2 = undecided: anchor loss / tool limit); exit 1 would be a false alarm.
PATCH=$1; shift
cd /verif
[ -z "$(git -C /repo status --porcelain)" ] || { echo "/repo not clean"; exit 9; }
cp -r evidence /tmp/evidence.keep.$$; cp -r replays /tmp/replays.keep.$$
git -C /repo apply $PATCH || exit 9
for p in "$@"; do
  out=$(./check $p --tier quick 2>&1); rc=$?
  echo "--- $p rc=$rc"; echo "$out" | grep -E "VIOLATION|UNDECIDED|KNOWN|OK |anchor|lost" | cut -c1-400
done
git -C /repo checkout -- .
git -C /repo clean -fdq crates 2>/dev/null
rm -rf evidence replays; mv /tmp/evidence.keep.$$ evidence; mv /tmp/replays.keep.$$ replays
git -C /repo status --porcelain | head -3
