"""Minimal Rust lexical scanner: enough to match braces exactly and to split a scope into items.

It understands line/block (nested) comments, string / byte-string / raw-string literals, char
literals vs. lifetimes, and the three bracket kinds.  It does not parse expressions or types.
"""
import re

OPEN = {'(': ')', '[': ']', '{': '}'}
CLOSE = {')': '(', ']': '[', '}': '{'}


class ScanError(Exception):
    pass


def skip_trivia_and_literals(s, i):
    """If position i starts a comment / string / char literal, return the index just past it,
    else return None."""
    c = s[i]
    n = len(s)
    if c == '/' and i + 1 < n:
        if s[i + 1] == '/':
            j = s.find('\n', i)
            return n if j < 0 else j
        if s[i + 1] == '*':
            depth = 1
            j = i + 2
            while j < n and depth:
                if s.startswith('/*', j):
                    depth += 1
                    j += 2
                elif s.startswith('*/', j):
                    depth -= 1
                    j += 2
                else:
                    j += 1
            return j
    if c == '"':
        j = i + 1
        while j < n:
            if s[j] == '\\':
                j += 2
                continue
            if s[j] == '"':
                return j + 1
            j += 1
        raise ScanError('unterminated string at %d' % i)
    if c in 'rb':
        # raw strings r"..", r#".."#, br".." ; byte strings b".." ; byte chars b'x'
        m = re.compile(r'(?:br|rb|r)(#*)"').match(s, i)
        if m and (i == 0 or not (s[i - 1].isalnum() or s[i - 1] == '_')):
            hashes = m.group(1)
            end = s.find('"' + hashes, m.end())
            if end < 0:
                raise ScanError('unterminated raw string at %d' % i)
            return end + 1 + len(hashes)
        if c == 'b' and i + 1 < n and s[i + 1] in '"\'' and (i == 0 or not (s[i - 1].isalnum() or s[i - 1] == '_')):
            return skip_trivia_and_literals(s, i + 1)
    if c == "'":
        # char literal or lifetime
        if i + 2 < n and s[i + 1] == '\\':
            j = s.find("'", i + 2)
            # '\'' case
            if s[i + 2] == "'" :
                j = s.find("'", i + 3)
            return j + 1
        if i + 2 < n and s[i + 2] == "'":
            return i + 3
        # multibyte char literal like 'é' is still one python char -> handled above; otherwise lifetime
        return None
    return None


def tokens(s, start=0, end=None):
    """Yield (index, char) for every significant punctuation/bracket char and (index, word) for
    identifiers/keywords, skipping comments and literals."""
    i = start
    n = len(s) if end is None else end
    ident = re.compile(r'[A-Za-z_][A-Za-z0-9_]*')
    while i < n:
        c = s[i]
        if c.isspace():
            i += 1
            continue
        j = skip_trivia_and_literals(s, i)
        if j is not None:
            i = j
            continue
        if c.isalpha() or c == '_':
            m = ident.match(s, i)
            yield i, m.group(0)
            i = m.end()
            continue
        if c.isdigit():
            m = re.compile(r'[0-9][0-9a-zA-Z_]*(?:\.[0-9][0-9a-zA-Z_]*)?').match(s, i)
            yield i, m.group(0)
            i = m.end()
            continue
        yield i, c
        i += 1


def match_close(s, i):
    """s[i] is an opening bracket; return index of its matching closer."""
    assert s[i] in OPEN, (s[i], i)
    stack = []
    for j, t in tokens(s, i):
        if t in OPEN:
            stack.append(t)
        elif t in CLOSE:
            if not stack or stack[-1] != CLOSE[t]:
                raise ScanError('mismatched bracket at %d' % j)
            stack.pop()
            if not stack:
                return j
    raise ScanError('unclosed bracket at %d' % i)


ITEM_KW = {'fn', 'struct', 'enum', 'impl', 'const', 'mod', 'trait', 'type', 'use', 'static',
           'macro_rules', 'union', 'extern'}
MODIFIERS = {'pub', 'unsafe', 'async', 'default', 'crate'}


class Item:
    __slots__ = ('kind', 'name', 'header', 'start', 'kw', 'body_open', 'end', 'attrs_end')

    def __repr__(self):
        return 'Item(%s %s @%d..%d)' % (self.kind, self.name, self.start, self.end)


def norm(s):
    s = re.sub(r'\s+', ' ', s).strip()
    s = re.sub(r'\s*([<>,:&()\[\]])\s*', r'\1', s)
    return s


def split_items(s, lo, hi):
    """Split s[lo:hi] (a file or the inside of an impl/mod body) into items."""
    items = []
    i = lo
    toks = tokens(s, lo, hi)
    start = None       # start of current item incl. attributes
    attrs_end = None
    pending = None
    it = iter(toks)
    buf = []
    # we drive manually because we need to jump
    pos = lo
    while True:
        # find next token from pos
        nxt = None
        for j, t in tokens(s, pos, hi):
            nxt = (j, t)
            break
        if nxt is None:
            break
        j, t = nxt
        if start is None:
            start = j
        if t == '#':
            # attribute: #[...] or #![...]
            k = j + 1
            if s[k] == '!':
                k += 1
            if s[k] != '[':
                raise ScanError('odd attribute at %d' % j)
            pos = match_close(s, k) + 1
            if s[j + 1] == '!':
                start = None
            continue
        if t in MODIFIERS:
            pos = j + len(t)
            # pub(crate)
            for k, tt in tokens(s, pos, hi):
                if tt == '(' and t == 'pub':
                    pos = match_close(s, k) + 1
                break
            continue
        if t == 'const':
            # `const fn` modifier or const item
            nn = None
            for k, tt in tokens(s, j + 5, hi):
                nn = tt
                break
            if nn in ('fn', 'unsafe', 'async', 'extern'):
                pos = j + 5
                continue
        if t == 'extern':
            # extern "C" fn / extern crate
            pos = j + 6
            nn = None
            for k, tt in tokens(s, pos, hi):
                nn = (k, tt)
                break
            if nn and nn[1] == 'crate':
                pass
            else:
                continue
        if t not in ITEM_KW:
            # macro invocation item like `foo! { }` or stray token: skip to ; or matching brace
            it_ = Item()
            it_.kind, it_.name, it_.header = 'other', t, t
            it_.start, it_.kw = start, j
            end = None
            for k, tt in tokens(s, j, hi):
                if tt in '({[' :
                    c = match_close(s, k)
                    # after a brace-delimited macro no ; needed
                    if tt == '{':
                        end = c + 1
                    else:
                        # look for ;
                        end = c + 1
                        for k2, t2 in tokens(s, c + 1, hi):
                            if t2 == ';':
                                end = k2 + 1
                            break
                    break
                if tt == ';':
                    end = k + 1
                    break
            if end is None:
                end = hi
            it_.body_open, it_.end, it_.attrs_end = None, end, j
            items.append(it_)
            pos = end
            start = None
            continue
        item = Item()
        item.kind = t
        item.start = start
        item.kw = j
        item.attrs_end = j
        # find end
        body_open = None
        end = None
        if t in ('const', 'static', 'type', 'use', 'extern'):
            depth_end = None
            k = j
            # ends at ';' at depth 0 (all brackets)
            p = j
            while True:
                got = None
                for k, tt in tokens(s, p, hi):
                    got = (k, tt)
                    break
                if got is None:
                    raise ScanError('unterminated item at %d' % j)
                k, tt = got
                if tt in OPEN:
                    p = match_close(s, k) + 1
                    continue
                if tt == ';':
                    end = k + 1
                    break
                p = k + len(tt)
        else:
            p = j + len(t)
            while True:
                got = None
                for k, tt in tokens(s, p, hi):
                    got = (k, tt)
                    break
                if got is None:
                    raise ScanError('unterminated item at %d' % j)
                k, tt = got
                if tt in '([':
                    p = match_close(s, k) + 1
                    continue
                if tt == '{':
                    body_open = k
                    end = match_close(s, k) + 1
                    break
                if tt == ';':
                    end = k + 1
                    break
                p = k + len(tt)
        item.body_open = body_open
        item.end = end
        head_end = body_open if body_open is not None else end
        header = norm(s[j + len(t):head_end])
        item.header = header
        m = re.match(r'!?\s*([A-Za-z_][A-Za-z0-9_]*)', header)
        if t == 'impl':
            item.name = header
        else:
            item.name = m.group(1) if m else header
        items.append(item)
        pos = end
        start = None
    return items


def find_loops(s, lo, hi):
    """Return list of (kw_index, body_open_index) for every for/while/loop in s[lo:hi], in source order."""
    out = []
    toks = list(tokens(s, lo, hi))
    n = len(toks)
    idx = 0
    while idx < n:
        j, t = toks[idx]
        if t in ('for', 'while', 'loop'):
            # `for<'a>` in types: skip when followed by '<'
            if t == 'for' and idx + 1 < n and toks[idx + 1][1] == '<':
                idx += 1
                continue
            # find the body-open brace: first '{' at paren/bracket depth 0
            k = idx + 1
            depth = 0
            found = None
            while k < n:
                kk, tt = toks[k]
                if tt in '([':
                    depth += 1
                elif tt in ')]':
                    depth -= 1
                elif tt == '{' and depth == 0:
                    found = kk
                    break
                k += 1
            if found is None:
                raise ScanError('loop without body at %d' % j)
            out.append((j, found))
        idx += 1
    return out
