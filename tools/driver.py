#!/usr/bin/env python3
"""./check <property> [--tier quick|thorough] [--replay <file>] [--rebaseline] [--units U1,U2]

Contract-based deductive verification driver.  For the property it
  1. re-extracts every function under contract from /repo's current working tree (tools/extract.py),
  2. runs Verus on each assembled unit and Kani on each registered harness,
  3. runs the vacuity guards (canary build: `assert(false)` must FAIL in every contracted function),
  4. maps verifier errors back to named obligations and compares with baseline/obligations.json,
  5. writes evidence/<id>.json and, for a violation, replays/<...>.json + a VIOLATION line.
Exit: 0 all obligations discharged (known findings only print a KNOWN-FINDING line);
      1 a baseline obligation fails (VIOLATION line printed);
      2 undecided: anchor loss, tool limit, compile error in spliced text, vacuity, time-out.
"""
import argparse
import concurrent.futures as cf
import hashlib
import json
import os
import re
import shutil
import subprocess
import sys
import time

ROOT = os.path.dirname(os.path.dirname(os.path.abspath(__file__)))
sys.path.insert(0, os.path.join(ROOT, 'tools'))
import extract as ex  # noqa: E402
import rustscan as rs  # noqa: E402

BUILD = os.path.join(ROOT, 'build')
REPO = ex.REPO
VERUS = shutil.which('verus') or '/usr/local/bin/verus'


def jload(p, default=None):
    try:
        with open(p) as f:
            return json.load(f)
    except OSError:
        return default


UNITS = jload(os.path.join(ROOT, 'units.json'))


class Undecided(Exception):
    pass


# ------------------------------------------------------------------ Verus

def assemble(unit, canary=False):
    """Extract + splice.  Returns (path, meta).  canary = False | (k, K): the k-th of K canary chunks."""
    tpl = os.path.join(ROOT, UNITS['units'][unit]['template'])
    o = ex.Out()
    o.canary = canary
    ex.process(tpl, o, unit)
    text = '\n'.join(o.lines) + '\n'
    path = os.path.join(BUILD, unit + ('_canary%d' % canary[0] if canary else '') + '.rs')
    with open(path, 'w') as f:
        f.write(text)
    meta = {'map': o.map, 'items': o.items, 'obligations': o.obligations, 'assumptions_declared': o.assumptions,
            'assumptions_scanned': ex.scan_assumptions(text), 'lost_hints': o.lost_hints,
            'canaries': getattr(o, 'canaries', []), 'nlines': len(o.lines)}
    with open(os.path.splitext(path)[0] + '.map.json', 'w') as f:
        json.dump(meta, f, indent=1)
    return path, meta, text


def run_verus(path, extra=(), timeout=900, canary=False):
    cmd = [VERUS, os.path.basename(path), '--output-json', '--time', '--error-format=json', '--num-threads', '2']
    # the canary build only needs the first error of every function (the injected `assert(false)`)
    cmd += ['--multiple-errors', '0', '--no-auto-recommends-check'] if canary else ['--multiple-errors', '20']
    cmd += list(extra)
    t0 = time.time()
    try:
        p = subprocess.run(cmd, cwd=os.path.dirname(path), capture_output=True, text=True, timeout=timeout)
    except subprocess.TimeoutExpired:
        raise Undecided('verus timed out after %ds on %s' % (timeout, os.path.basename(path)))
    wall = time.time() - t0
    try:
        js = json.loads(p.stdout)
    except ValueError:
        js = None
    diags = []
    for line in p.stderr.split('\n'):
        line = line.strip()
        if line.startswith('{'):
            try:
                d = json.loads(line)
            except ValueError:
                continue
            if d.get('$message_type') == 'diagnostic':
                diags.append(d)
    if os.environ.get('VERIF_DEBUG'):
        sys.stderr.write('[timing] %s %.1fs\n' % (os.path.basename(path), wall))
    return {'cmd': ' '.join(cmd), 'json': js, 'diags': diags, 'wall': wall, 'stderr': p.stderr, 'rc': p.returncode}


TOOL_LIMIT_PAT = re.compile(r'not supported|unsupported|not yet support|does not support|Resource limit|rlimit|'
                            r'internal error|panicked|cannot find|mismatched types|unresolved|expected one of|'
                            r'unexpected token|no method named|no field|cannot be applied|is not implemented|'
                            r'cyclic dependency|borrow|lifetime', re.I)


def classify(diag):
    """'verif' = a proof obligation failed; 'tool' = compile error / tool limit; None = ignorable."""
    if diag.get('level') != 'error':
        return None
    msg = diag.get('message', '')
    if msg.startswith('aborting due to'):
        return None
    if diag.get('code') or not diag.get('spans'):
        return 'tool'
    if TOOL_LIMIT_PAT.search(msg):
        return 'tool'
    return 'verif'


def region_at(meta, line):
    best = None
    for r in meta['map']:
        if r['start'] <= line <= r['end']:
            if best is None or (r['end'] - r['start']) <= (best['end'] - best['start']):
                best = r
    return best


# std functions for which vstd carries a specification (seen accepted by the installed Verus)
STD_SPECIFIED = {'len', 'unwrap', 'unwrap_or', 'expect', 'is_some', 'is_none', 'is_ok', 'is_err', 'clone', 'push', 'pop', 'into', 'as_ref',
                 'saturating_sub', 'saturating_add', 'saturating_mul', 'checked_add', 'checked_sub', 'checked_mul', 'wrapping_add',
                 'wrapping_sub', 'wrapping_mul', 'min', 'max', 'map', 'and_then', 'ok_or', 'ok_or_else', 'unwrap_or_else', 'get', 'insert',
                 'remove', 'contains_key', 'split_first', 'is_empty', 'to_vec', 'iter', 'new', 'from', 'try_from', 'try_into', 'abs',
                 'leading_zeros', 'trailing_zeros', 'ilog2', 'eq', 'ne', 'lt', 'le', 'gt', 'ge', 'cmp', 'deref', 'to_owned', 'first',
                 'last', 'swap', 'default', 'is_positive', 'is_negative', 'is_zero', 'signum'}


def attribute(diag, meta):
    """Map one verification error to (obligation names, src location)."""
    spans = diag.get('spans', [])
    msg = diag.get('message', '')
    prim = [s for s in spans if s.get('is_primary')]
    others = [s for s in spans if not s.get('is_primary')]
    fn = None
    src = None
    names = []
    # which function?
    for s in prim + others:
        r = region_at(meta, s['line_start'])
        if r and r.get('fn'):
            fn = r['fn']
            break
    # where in the real source?
    for s in (others + prim) if 'postcondition' in msg else (prim + others):
        r = region_at(meta, s['line_start'])
        if r and r.get('kind') == 'body' and 'src_line' in r:
            src = {'file': r['file'], 'line': r['src_line'] + (s['line_start'] - r['start'])}
            break
    if fn is None:
        return [], None, src
    if 'postcondition not satisfied' in msg:
        for s in prim:
            for o in meta['obligations']:
                if o['fn'] == fn and o['kind'] == 'ensures' and o['start'] <= s['line_start'] <= o['end']:
                    names.append(o['name'])
        if not names:
            names = [fn + '/ensures#?']
    elif 'invariant' in msg:
        # which loop: nearest loop region above the primary span
        lp = None
        for s in prim + others:
            for r in meta['map']:
                if r.get('fn') == fn and str(r.get('kind', '')).startswith('loop#') and r['start'] <= s['line_start'] <= r['end']:
                    lp = r['kind']
        names = ['%s/%s' % (fn, lp)] if lp else [fn + '/safety']
    else:
        kind = None
        for o in meta['obligations']:
            if o['fn'] == fn and o['kind'] == 'lemma':
                kind = o['name']
        names = [kind] if kind else [fn + '/safety']
    return names, fn, src


def verus_unit(unit, tier):
    t0 = time.time()
    path, meta, text = assemble(unit)
    res = run_verus(path)
    out = {'unit': unit, 'kind': 'verus', 'path': path, 'meta': meta, 'cmd': res['cmd'], 'wall': res['wall'], 'undecided': [],
           'failed': {}, 'verus_json': None}
    js = res['json']
    if js is None:
        raise Undecided('%s: verus produced no JSON (rc=%s): %s' % (unit, res['rc'], res['stderr'][-600:]))
    vr = js.get('verification-results', {})
    out['verus_json'] = vr
    out['times'] = js.get('times-ms', {})
    tool_errs = [d for d in res['diags'] if classify(d) == 'tool']
    if tool_errs and all(re.search(r'Resource limit|rlimit', d.get('message', '')) for d in tool_errs):
        # a solver resource wobble is not a verdict: retry once with a larger limit before giving up
        res = run_verus(path, extra=('--rlimit', '100'))
        js = res['json'] or js
        vr = js.get('verification-results', {})
        out['verus_json'] = vr
        out['retried_rlimit'] = True
        tool_errs = [d for d in res['diags'] if classify(d) == 'tool']
    if vr.get('encountered-vir-error') or tool_errs:
        msgs = '; '.join(sorted(set(d['message'] for d in tool_errs)))[:1500]
        first = tool_errs[0].get('rendered', '') if tool_errs else ''
        raise Undecided('%s: tool limit / compile error in assembled unit: %s\n%s' % (unit, msgs, first[:1500]))
    for d in res['diags']:
        if classify(d) != 'verif':
            continue
        names, fn, src = attribute(d, meta)
        if not names:
            raise Undecided('%s: verifier error could not be attributed: %s' % (unit, d.get('rendered', d['message'])[:800]))
        for nme in names:
            out['failed'].setdefault(nme, []).append({'message': d['message'], 'rendered': d.get('rendered', ''), 'src': src, 'fn': fn})
    nerr = vr.get('errors', 0)
    if nerr and not out['failed']:
        raise Undecided('%s: verus reports %d errors but none parsed' % (unit, nerr))
    out['verified_fns'] = vr.get('verified', 0)
    # per-function solver time
    fb = []
    try:
        for m in js['times-ms']['smt']['smt-run-module-times']:
            fb.extend(m.get('function-breakdown', []))
    except (KeyError, TypeError):
        pass
    out['fn_times'] = {f['function'].split('::', 1)[-1]: f.get('time-micros', 0) / 1e6 for f in fb}
    out['smt_s'] = js.get('times-ms', {}).get('smt', {}).get('total', 0) / 1000.0
    # lost hints: undecided only if the function they belong to fails
    for lh in meta['lost_hints']:
        bad = [n for n in out['failed'] if n.startswith(lh['fn'] + '/')]
        if bad:
            # the proof of this function lost a hint it needs: its failures are UNDECIDED, never a violation
            out['undecided'].append('hint anchor `%s` lost in %s and its proof now fails (%s)' % (lh['anchor'], lh['fn'], ', '.join(sorted(bad))[:200]))
            for nme in bad:
                out['failed'].pop(nme, None)
    out['extract_wall'] = time.time() - t0 - res['wall']
    return out


def canary_chunk(unit, k, K):
    path, meta, text = assemble(unit, canary=(k, K))
    res = run_verus(path, canary=True)
    js = res['json']
    if js is None:
        raise Undecided('%s canary: no JSON' % unit)
    tool_errs = [d for d in res['diags'] if classify(d) == 'tool']
    if tool_errs:
        raise Undecided('%s canary build does not compile: %s' % (unit, tool_errs[0].get('rendered', '')[:800]))
    hit = set()
    for d in res['diags']:
        if classify(d) == 'verif' and 'assertion failed' in d.get('message', ''):
            for s in d.get('spans', []):
                if s.get('is_primary'):
                    for c in meta['canaries']:
                        if c['line'] == s['line_start']:
                            hit.add(c['name'])
    return [c['name'] for c in meta['canaries']], hit, res['wall']


def canary_unit(unit, pool=None, tier='quick'):
    """Vacuity guard: with `assert(false)` at the top of every contracted function (and of every
    annotated loop body) Verus must report an assertion failure in each of them.  Large units are
    checked in chunks (each chunk injects the canary into a subset of the functions) so they run in parallel."""
    nfn = UNITS['units'][unit].get('canary_chunks', 1)
    # quick tier: units whose functions all share one precondition shape (generated arms) check a sample of the chunks
    ks = list(range(nfn))
    if tier == 'quick' and UNITS['units'][unit].get('canary_quick_chunks'):
        ks = ks[:UNITS['units'][unit]['canary_quick_chunks']]
    parts = [canary_chunk(unit, k, nfn) for k in ks] if pool is None else [f.result() for f in [pool.submit(canary_chunk, unit, k, nfn) for k in ks]]
    expected, hit, wall = [], set(), 0.0
    for e, h, w in parts:
        expected += e
        hit |= h
        wall = max(wall, w)
    vacuous = [c for c in expected if c not in hit]
    return {'expected': expected, 'refuted': sorted(hit), 'vacuous': vacuous, 'wall': wall}


# ------------------------------------------------------------------ Kani

KANI_DIR = os.path.join(ROOT, 'kani')


def kani_harness(h, timeout):
    env = dict(os.environ)
    env['CARGO_NET_OFFLINE'] = 'true'
    cmd = ['cargo', 'kani', '-Z', 'stubbing', '-Z', 'function-contracts', '--harness', h, '--output-format', 'terse']
    t0 = time.time()
    try:
        p = subprocess.run(cmd, cwd=KANI_DIR, capture_output=True, text=True, timeout=timeout, env=env)
    except subprocess.TimeoutExpired:
        subprocess.run(['pkill', '-f', 'cbmc'], capture_output=True)
        return {'harness': h, 'status': 'timeout', 'wall': time.time() - t0, 'out': ''}
    out = p.stdout + '\n' + p.stderr
    st = 'unknown'
    if re.search(r'VERIFICATION:- SUCCESSFUL', out):
        st = 'ok'
    elif re.search(r'VERIFICATION:- FAILED', out):
        st = 'failed'
    if re.search(r'internal compiler error|error: could not compile|error\[E\d+\]', out) and st != 'ok':
        st = 'tool'
    m = re.search(r'\*\* (\d+) of (\d+) failed', out)
    checks = (int(m.group(1)), int(m.group(2))) if m else None
    mc = re.search(r'\*\* (\d+) of (\d+) cover properties satisfied', out)
    cov = ['SATISFIED'] * int(mc.group(1)) + ['UNSATISFIABLE'] * (int(mc.group(2)) - int(mc.group(1))) if mc else []
    return {'harness': h, 'status': st, 'wall': time.time() - t0, 'out': out[-6000:], 'checks': checks,
            'cmd': ' '.join(cmd), 'covers': cov}


def kani_prepare():
    """cargo kani needs Cargo.lock from /repo (offline resolution)."""
    src = os.path.join(REPO, 'Cargo.lock')
    dst = os.path.join(KANI_DIR, 'Cargo.lock')
    if not os.path.exists(dst):
        shutil.copy(src, dst)


def kani_unit(unit, tier):
    spec = UNITS['units'][unit]
    kani_prepare()
    hs = [h for h in spec['harnesses'] if tier == 'thorough' or not h.get('slow')]
    out = {'unit': unit, 'kind': 'kani', 'harnesses': [], 'failed': {}, 'undecided': [], 'wall': 0.0, 'skipped_slow': [h['name'] for h in spec['harnesses'] if h not in hs]}
    # build once (first harness), then run the rest in parallel
    results = []
    if hs:
        results.append(kani_harness(hs[0]['name'], hs[0].get('timeout', 600)))
        with cf.ThreadPoolExecutor(max_workers=6) as pool:
            futs = [pool.submit(kani_harness, h['name'], h.get('timeout', 600)) for h in hs[1:]]
            results.extend(f.result() for f in futs)
    for h, r in zip(hs, results):
        out['wall'] += r['wall']
        name = 'kani/%s' % h['name']
        r['obligation'] = name
        r['text'] = h.get('text', '')
        out['harnesses'].append(r)
        if r['status'] == 'failed':
            out['failed'][name] = [{'message': 'Kani: VERIFICATION FAILED', 'rendered': r['out'][-3000:], 'src': None, 'fn': h.get('fn')}]
        elif r['status'] != 'ok':
            out['undecided'].append('%s: kani %s' % (h['name'], r['status']))
        if r['status'] == 'ok' and any(c != 'SATISFIED' for c in r['covers']):
            out['undecided'].append('%s: VACUOUS (cover not satisfied)' % h['name'])
    return out


# ------------------------------------------------------------------ replay search

def bounded_search(pid, seed, tier):
    """Bounded replay layer: concrete inputs through the real code and executable specifications
    (tools/replay.py -> /verif/replay).  Returns dict(status, fails, bounds, wall)."""
    rp = os.path.join(ROOT, 'tools', 'replay.py')
    t0 = time.time()
    out = {'status': 'not-run', 'fails': [], 'bounds': [], 'wall': 0.0, 'cmd': ''}
    if not os.path.exists(rp):
        return out
    cmd = [sys.executable, rp, 'search', '--property', pid, '--seed', str(seed), '--tier', tier]
    out['cmd'] = ' '.join(cmd)
    try:
        p = subprocess.run(cmd, capture_output=True, text=True, timeout=3000)
    except subprocess.TimeoutExpired:
        out['status'] = 'timeout'
        return out
    for line in p.stdout.split('\n'):
        if line.startswith('FAILING-INPUT '):
            try:
                out['fails'].append(json.loads(line[len('FAILING-INPUT '):]))
            except ValueError:
                pass
        elif line.startswith('BOUNDS '):
            out['bounds'].append(line[len('BOUNDS '):])
    out['status'] = {0: 'clean', 1: 'failing-input', 3: 'unavailable'}.get(p.returncode, 'error')
    out['wall'] = time.time() - t0
    if os.environ.get('VERIF_DEBUG'):
        sys.stderr.write('[timing] bounded %.1fs\n' % out['wall'])
    return out


# ------------------------------------------------------------------ thorough tier: contract self-test on the seeded changes

def contract_selftest(pid, units):
    """For every seeded change of this property (seeded/<id>/patch.diff), apply it to a scratch copy of /repo's sources
    (never to /repo), re-extract and re-verify the Verus units, and record whether a named obligation fails.  Informational:
    it measures how much of the detection is carried by contracts (the bounded layer and Kani are not part of this test)."""
    import glob
    import tempfile
    out = []
    seeds = sorted(glob.glob(os.path.join(ROOT, 'seeded', '*', 'meta.json')))
    scratch = tempfile.mkdtemp(prefix='verif-selftest-')
    try:
        for mp in seeds:
            meta = jload(mp, {})
            if meta.get('property') != pid:
                continue
            patch = os.path.join(os.path.dirname(mp), 'patch.diff')
            subprocess.run(['rsync', '-a', '--delete', '--exclude', 'target', os.path.join(REPO, 'crates'), scratch], check=False)
            ap = subprocess.run(['patch', '-p1', '-s', '-d', scratch, '-i', patch], capture_output=True, text=True)
            rec = {'seed': meta.get('id'), 'failed_obligations': [], 'undecided_units': []}
            if ap.returncode != 0:
                rec['note'] = 'patch does not apply to the current tree'
                out.append(rec)
                continue
            old_repo = ex.REPO
            ex.REPO = scratch
            ex._file_cache.clear()
            try:
                for u in units:
                    if UNITS['units'][u]['kind'] != 'verus':
                        continue
                    try:
                        r = verus_unit(u, 'quick')
                        rec['failed_obligations'] += ['%s/%s' % (u, n) for n in r['failed']]
                    except (Undecided, ex.AnchorLoss, rs.ScanError) as e:
                        rec['undecided_units'].append('%s: %s' % (u, str(e).split('\n')[0][:160]))
            finally:
                ex.REPO = old_repo
                ex._file_cache.clear()
            rec['detected_by_contracts'] = bool(rec['failed_obligations'])
            out.append(rec)
    finally:
        shutil.rmtree(scratch, ignore_errors=True)
    return out


# ------------------------------------------------------------------ main

def sanitize(s):
    return re.sub(r'[^A-Za-z0-9_.#-]+', '_', s)


def main():
    ap = argparse.ArgumentParser()
    ap.add_argument('property')
    ap.add_argument('--tier', default=os.environ.get('VERIF_TIER', 'quick'), choices=['quick', 'thorough'])
    ap.add_argument('--replay')
    ap.add_argument('--rebaseline', action='store_true')
    ap.add_argument('--units')
    ap.add_argument('--no-canary', action='store_true')
    ap.add_argument('--no-bounded', action='store_true')
    a = ap.parse_args()
    pid = a.property
    seed = int(os.environ.get('VERIF_SEED', '0') or 0)
    t_start = time.time()
    os.makedirs(BUILD, exist_ok=True)
    os.makedirs(os.path.join(ROOT, 'evidence'), exist_ok=True)
    os.makedirs(os.path.join(ROOT, 'replays'), exist_ok=True)

    if a.replay:
        rp = os.path.join(ROOT, 'tools', 'replay.py')
        sys.exit(subprocess.call([sys.executable, rp, 'replay', a.replay]))

    pspec = UNITS['properties'].get(pid)
    if not pspec:
        print('property %s is not claimed (see MANIFEST.json not_applicable)' % pid)
        sys.exit(2)
    units = a.units.split(',') if a.units else pspec['units']
    baseline_path = os.path.join(ROOT, 'baseline', 'obligations.json')
    baseline = jload(baseline_path, {})
    known = jload(os.path.join(ROOT, 'known_findings.json'), {'findings': []})['findings']
    callees_path = os.path.join(ROOT, 'baseline', 'callees.json')
    callees_base = jload(callees_path, {})

    results = {}
    undecided = []
    canaries = {}

    def guarded(u, fn, *args):
        spec = UNITS['units'][u]
        try:
            return fn(*args)
        except (ex.AnchorLoss, rs.ScanError) as e:
            msg = 'anchor loss: %s' % e
        except Undecided as e:
            msg = str(e)
        # the unit could not be decided on this tree (lost anchor, construct outside the verifier's reach, ...)
        return {'unit': u, 'kind': spec['kind'], 'broken': True, 'undecided': [msg.split('\n')[0][:600]], 'failed': {}, 'harnesses': [],
                'meta': {'obligations': [], 'items': [], 'assumptions_scanned': [], 'assumptions_declared': [], 'map': [], 'lost_hints': []},
                'cmd': '', 'wall': 0.0, 'detail': msg[:3000]}

    def do_unit(u):
        spec = UNITS['units'][u]
        if spec['kind'] == 'verus':
            return u, guarded(u, verus_unit, u, a.tier), None
        return u, guarded(u, kani_unit, u, a.tier), None

    def do_canary(u):
        try:
            with cf.ThreadPoolExecutor(max_workers=6) as cpool:
                return u, canary_unit(u, cpool, a.tier)
        except (ex.AnchorLoss, rs.ScanError, Undecided):
            return u, None   # the main build of the unit reports the reason

    verus_units = [u for u in units if UNITS['units'][u]['kind'] == 'verus']
    kani_units = [u for u in units if UNITS['units'][u]['kind'] == 'kani']
    with cf.ThreadPoolExecutor(max_workers=24) as pool:
        bf = pool.submit(bounded_search, pid, seed, a.tier) if not a.no_bounded else None
        futs = {pool.submit(do_unit, u): u for u in verus_units}
        cfuts = [pool.submit(do_canary, u) for u in verus_units] if not a.no_canary else []
        # kani units run sequentially among themselves (shared target dir), concurrently with verus
        def all_kani():
            return [do_unit(u) for u in kani_units]
        kf = pool.submit(all_kani)
        for f in cf.as_completed(list(futs)):
            u, r, c = f.result()
            results[u] = r
        for f in cfuts:
            u, c = f.result()
            if c:
                canaries[u] = c
        for u, r, c in kf.result():
            results[u] = r
        bounded = bf.result() if bf else {'status': 'not-run', 'fails': [], 'bounds': [], 'wall': 0.0, 'cmd': ''}

    # ---- collect obligations
    all_obl = []   # (unit, name, text, backend)
    failed = []
    for u in units:
        r = results[u]
        if r['kind'] == 'verus':
            for o in r['meta']['obligations']:
                if o.get('context'):
                    continue
                if pspec.get('only_kinds') and o['kind'] not in pspec['only_kinds']:
                    continue
                all_obl.append((u, o['name'], o.get('text', ''), 'verus+z3'))
        else:
            for h in r['harnesses']:
                all_obl.append((u, h['obligation'], h.get('text', ''), 'kani+cbmc'))
        for nme, errs in r['failed'].items():
            if pspec.get('only_kinds'):
                k = nme.rsplit('/', 1)[-1].split('#')[0]
                if k not in pspec['only_kinds'] and not nme.startswith('kani/') and not nme.startswith('lemma/'):
                    continue
            failed.append((u, nme, errs))
        undecided.extend('%s: %s' % (u, x) for x in r['undecided'])
    for u, c in canaries.items():
        if c['vacuous']:
            undecided.append('%s: VACUOUS — canary not refuted in: %s' % (u, ', '.join(c['vacuous'])))

    if a.rebaseline:
        for u in units:
            r = results[u]
            if r.get('broken'):
                continue
            if r['kind'] == 'verus':
                full = [o['name'] for o in r['meta']['obligations'] if not o.get('context')]
            else:
                full = [h['obligation'] for h in r['harnesses']] + [n for n in baseline.get(u, []) if n in ['kani/' + x for x in r.get('skipped_slow', [])]]
            baseline[u] = sorted(set(n for n in full if n not in r['failed']))
            if r['kind'] == 'verus':
                callees_base[u] = {it['fn']: it.get('callees', []) for it in r['meta']['items'] if it.get('role') == 'fn'}
        os.makedirs(os.path.dirname(baseline_path), exist_ok=True)
        with open(baseline_path, 'w') as f:
            json.dump(baseline, f, indent=1, sort_keys=True)
        with open(callees_path, 'w') as f:
            json.dump(callees_base, f, indent=1, sort_keys=True)
        print('baseline rewritten for %s' % ', '.join(units))

    # ---- baseline comparison
    for u in units:
        r = results[u]
        if r.get('broken'):
            continue
        if r['kind'] == 'verus':
            have = set(o['name'] for o in r['meta']['obligations'])
        else:
            have = set(h['obligation'] for h in r['harnesses']) | set('kani/' + x for x in r.get('skipped_slow', []))
        missing = [n for n in baseline.get(u, []) if n not in have]
        if missing:
            undecided.append('%s: %d baseline obligations were not generated this run (e.g. %s)' % (u, len(missing), missing[0]))
        if u not in baseline:
            undecided.append('%s: no baseline recorded' % u)

    violations = []
    known_hits = []
    # callee names that occur in some body that verified on the pinned tree have a contract somewhere (vstd, prelude, unit)
    specified = set(STD_SPECIFIED)
    for uu, fns in callees_base.items():
        for fnn, cs in fns.items():
            specified.update(cs)
    for u, nme, errs in failed:
        full = '%s/%s' % (u, nme)
        # A proof that fails because the changed body now calls a function for which no contract is known is UNDECIDED,
        # not a violation (Verus treats an unspecified callee as returning anything): the bounded layer decides then.
        r = results[u]
        if r['kind'] == 'verus' and not nme.startswith('lemma/'):
            fnq = nme.rsplit('/', 1)[0]
            cur = next((it.get('callees', []) for it in r['meta']['items'] if it.get('role') == 'fn' and it['fn'] == fnq), None)
            base = callees_base.get(u, {}).get(fnq)
            if cur is not None and base is not None:
                # names given a body or an assumed contract in the assembled unit itself (prelude models, extracted functions)
                defined = r.get('defined_names')
                if defined is None:
                    try:
                        with open(os.path.join(ROOT, 'build', '%s.rs' % u), encoding='utf-8') as f:
                            txt = f.read()
                        defined = set(re.findall(r'\bfn\s+([A-Za-z_]\w*)', txt)) | set(re.findall(r'::\s*([A-Za-z_]\w*)\s*\]\s*\(', txt))
                    except OSError:
                        defined = set()
                    r['defined_names'] = defined
                newc = [c for c in cur if c not in base and c not in specified and c not in defined]
                if newc:
                    undecided.append('%s fails, but the changed body calls %s, for which this unit has no contract: the proof is undecided, not refuted'
                                     % (full, ', '.join('`%s`' % c for c in newc[:4])))
                    continue
        kf = [k for k in known if k.get('property') == pid and k.get('obligation') == full and k.get('status') == 'known']
        if kf:
            known_hits.append((full, kf[0]))
            continue
        if nme in baseline.get(u, []):
            violations.append((u, nme, errs))
        else:
            undecided.append('%s fails but was never discharged on the pinned tree (not in baseline): %s' % (full, errs[0]['message']))

    rc = 0
    for full, k in known_hits:
        print('KNOWN-FINDING: property=%s %s — %s' % (pid, full, k.get('what', '')))
    viol_records = []
    repo_head = subprocess.run(['git', '-C', REPO, 'rev-parse', 'HEAD'], capture_output=True, text=True).stdout.strip()
    repo_dirty = subprocess.run(['git', '-C', REPO, 'status', '--porcelain'], capture_output=True, text=True).stdout.strip().split('\n')
    bfails = list(bounded['fails'])
    known_inputs = [k for k in known if k.get('property') == pid and k.get('status') == 'known' and k.get('input') is not None]
    kept = []
    for bfail in bfails:
        kk = [k for k in known_inputs if k['input'] == bfail.get('input')]
        if kk:
            print('KNOWN-FINDING: property=%s bounded/%s %s — %s' % (pid, bfail.get('mode'), json.dumps(bfail.get('input')), kk[0].get('what', '')))
        else:
            kept.append(bfail)
    bfails = kept
    for u, nme, errs in violations:
        full = '%s/%s' % (u, nme)
        inp = bfails[0] if bfails else None
        rpath = os.path.join(ROOT, 'replays', '%s-%s.json' % (pid, sanitize(full)))
        rec = {'property': pid, 'obligation': full, 'unit': u, 'backend': 'kani+cbmc' if nme.startswith('kani/') else 'verus+z3',
               'obligation_text': next((t for (uu, n, t, _) in all_obl if uu == u and n == nme), ''),
               'verifier_output': [e['rendered'] or e['message'] for e in errs][:5],
               'source': [e['src'] for e in errs if e.get('src')][:5],
               'failing_input': inp,
               'failing_input_found_by': 'bounded replay search against the real code (tools/replay.py)' if inp else None,
               'how_to_replay': './check %s --replay %s' % (pid, os.path.relpath(rpath, ROOT)),
               'repo_head': repo_head, 'repo_dirty_files': repo_dirty}
        with open(rpath, 'w') as f:
            json.dump(rec, f, indent=1)
        tail = '' if inp else ' no-failing-input-found'
        print('VIOLATION property=%s replay=%s obligation=%s%s' % (pid, rpath, full, tail))
        viol_records.append(rec)
        rc = 1
    if not violations and bfails:
        # no contract obligation failed (the defect is outside the functions under contract, or the verifier could
        # not decide the changed code), but a concrete input run through the real code contradicts the specification
        for bfail in bfails[:3]:
            name = 'bounded/%s/%s' % (bfail.get('mode'), hashlib.sha256(json.dumps(bfail.get('input'), sort_keys=True).encode()).hexdigest()[:10])
            rpath = os.path.join(ROOT, 'replays', '%s-%s.json' % (pid, sanitize(name)))
            rec = {'property': pid, 'obligation': name, 'unit': None, 'backend': 'bounded replay (not a proof obligation)',
                   'obligation_text': bfail.get('what', ''), 'verifier_output': ['undecided: ' + x for x in undecided][:5],
                   'source': [], 'failing_input': bfail, 'failing_input_found_by': 'bounded replay search against the real code (tools/replay.py)',
                   'how_to_replay': './check %s --replay %s' % (pid, os.path.relpath(rpath, ROOT)), 'repo_head': repo_head, 'repo_dirty_files': repo_dirty}
            with open(rpath, 'w') as f:
                json.dump(rec, f, indent=1)
            print('VIOLATION property=%s replay=%s obligation=%s found-by=bounded-replay' % (pid, rpath, name))
            viol_records.append(rec)
        rc = 1
    if rc == 0 and undecided:
        for x in undecided:
            print('UNDECIDED property=%s %s' % (pid, x))
        rc = 2
    if rc == 0 and bounded['status'] not in ('clean', 'not-run'):
        print('NOTE property=%s bounded layer %s (does not affect the verdict of the proof obligations)' % (pid, bounded['status']))
    selftest = contract_selftest(pid, units) if a.tier == 'thorough' and rc == 0 else None
    write_evidence(pid, a.tier, seed, results, canaries, all_obl, failed, undecided, t_start, pspec, units, known_hits, viol_records, bounded, selftest)
    if rc == 0:
        print('OK property=%s tier=%s obligations=%d discharged=%d units=%s wall=%.1fs' % (
            pid, a.tier, len(all_obl), len(all_obl) - len(failed), ','.join(units), time.time() - t_start))
    sys.exit(rc)


def write_evidence(pid, tier, seed, results, canaries, all_obl, failed, undecided, t_start, pspec, units, known_hits=(), viol=(), bounded=None, selftest=None):
    failed_names = set('%s/%s' % (u, n) for (u, n, _) in failed)
    fns = []
    transforms = set()
    assumptions = []
    trusted = ['Verus 0.2026.09.13 + Z3 (rustc 1.98.1 front end)', 'tools/extract.py + tools/rustscan.py (mechanical extraction; transformations T1-T14 listed under coverage.transformations)']
    checker_cmds = []
    by_backend = {}
    smt = 0.0
    fn_times = {}
    for u in units:
        r = results.get(u)
        if not r:
            continue
        if r['kind'] == 'verus':
            checker_cmds.append(r['cmd'])
            smt += r.get('smt_s', 0)
            for it in r['meta']['items']:
                if it['role'] == 'fn':
                    fns.append({'unit': u, 'fn': it['fn'], 'file': it['file'], 'lines': [it['src_line'], it['src_end_line']], 'body_sha256_16': it['sha256']})
                for t in it['transforms']:
                    transforms.add(re.sub(r'`[^`]*`', '`..`', t) if t.startswith('attr') else t)
            for s in r['meta']['assumptions_scanned']:
                assumptions.append('%s:%d %s: %s' % (u, s['line'], s['kind'], s['text']))
            for s in r['meta']['assumptions_declared']:
                assumptions.append('%s: %s' % (u, s))
            fn_times.update({'%s/%s' % (u, k): v for k, v in r.get('fn_times', {}).items() if v > 0.05})
        else:
            trusted_k = 'Kani 0.68 + CBMC 6.11 on the real crate (path dependency on /repo/crates/uplc)'
            if trusted_k not in trusted:
                trusted.append(trusted_k)
            for h in r['harnesses']:
                checker_cmds.append(h.get('cmd', ''))
    for (u, n, t, b) in all_obl:
        d = by_backend.setdefault(b, {'obligations': 0, 'discharged': 0})
        d['obligations'] += 1
        if '%s/%s' % (u, n) not in failed_names:
            d['discharged'] += 1
    samples = []
    for (u, n, t, b) in all_obl:
        samples.append({'obligation': '%s/%s' % (u, n), 'status': 'FAILED' if '%s/%s' % (u, n) in failed_names else 'discharged', 'backend': b, 'text': t})
    nob = len(all_obl)
    ndis = nob - len([1 for (u, n, t, b) in all_obl if '%s/%s' % (u, n) in failed_names])
    ev = {
        'property_id': pid,
        'tier': tier,
        'seed': seed,
        'level': 'proof',
        'coverage': {
            'obligations': nob,
            'discharged': ndis,
            'checker_cmd': ' ; '.join(sorted(set(checker_cmds)))[:4000],
            'trusted_base': trusted + sorted(set(UNITS.get('trusted_base', []))),
            'by_backend': by_backend,
            'solver_time_s': round(smt, 2),
            'slow_functions_s': fn_times,
            'functions_under_contract': fns,
            'functions_not_under_contract': pspec.get('unverified', []),
            'transformations': sorted(transforms),
            'vacuity_canaries': {u: {'expected': len(c['expected']), 'refuted': len(c['refuted']), 'vacuous': c['vacuous']} for u, c in canaries.items()},
            'kani': {u: [{'harness': h['harness'], 'status': h['status'], 'checks': h.get('checks'), 'wall_s': round(h['wall'], 1), 'claim': h.get('text', '')} for h in results[u]['harnesses']] for u in units if results.get(u) and results[u]['kind'] == 'kani'},
            'undecided': undecided,
            'contract_selftest_on_seeded_changes': selftest,
            'bounded_layer': {'label': 'BOUNDED stand-in, never counted as proved: concrete inputs run through the real code against executable specifications', 'status': (bounded or {}).get('status'), 'bounds': (bounded or {}).get('bounds'), 'failing_inputs': (bounded or {}).get('fails'), 'cmd': (bounded or {}).get('cmd'), 'wall_s': round((bounded or {}).get('wall', 0.0), 1)},
            'known_findings_hit': [k for k, _ in known_hits],
            'violations': [v['obligation'] for v in viol],
            'samples': samples,
            'explanation': pspec.get('claim', ''),
            'exhaustive': False,
        },
        'assumptions': sorted(set(assumptions)) + pspec.get('assumptions', []),
        'wall_s': round(time.time() - t_start, 2),
        'violations': len(viol),
    }
    with open(os.path.join(ROOT, 'evidence', pid + '.json'), 'w') as f:
        json.dump(ev, f, indent=1)


if __name__ == '__main__':
    main()
