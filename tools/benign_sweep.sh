#!/bin/bash
# usage: benign_sweep.sh : every behaviour-preserving change of /verif/benign against the checks of the properties whose
# units read the touched file.  Prints one line per (change, property); exit 1 lines would be false alarms.
cd /verif
props_for() {
  case "$1" in
    *debruijn*|*bimap*) echo "C11";;
    *flat.rs*) echo "C08 C20";;
    *builtins.rs*) echo "C08 C04";;
    *shrinker.rs*) echo "C02";;
    *machine/runtime.rs*) echo "C04 C03";;
    *machine/cost_model.rs*) echo "C05";;
    *machine/value.rs*) echo "C04 C05";;
    *machine/discharge.rs*) echo "C03";;
    *uplc/src/machine.rs*) echo "C03 C05";;
    *uplc/src/builder.rs*) echo "C03";;
    *uplc/src/ast.rs*) echo "C08 C18";;
    *test_framework.rs*) echo "C16";;
    *blueprint*) echo "C18 C20";;
    *) echo "C10";;
  esac
}
for p in benign/*/change*/patch.diff; do
  f=$(grep -h '^+++ b/' $p | head -1 | sed 's|+++ b/||')
  if ! git -C /repo apply --check /verif/$p 2>/dev/null; then echo "$p SKIP does-not-apply"; continue; fi
  for prop in $(props_for "$f"); do
    out=$(tools/benign_eval.sh /verif/$p $prop 2>&1 | grep -E "^--- |VIOLATION" | tr '\n' ' ' | cut -c1-200)
    echo "$p $f :: $out"
  done
done
