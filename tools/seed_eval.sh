#!/bin/bash
# usage: seed_eval.sh <seed-dir> [props...] : apply the seeded change to /repo, run checks, undo.
D=$1; shift
P=$(python3 -c "import json;print(json.load(open('$D/meta.json'))['property'])")
PROPS=${@:-$P C10}
cd /verif
[ -z "$(git -C /repo status --porcelain)" ] || { echo "/repo not clean"; exit 9; }
cp -r evidence /tmp/evidence.keep.$$; cp -r replays /tmp/replays.keep.$$
git -C /repo apply /verif/$D/patch.diff || exit 9
for p in $PROPS; do
  out=$(./check $p --tier quick 2>&1); rc=$?
  echo "--- $p rc=$rc"; echo "$out" | grep -E "VIOLATION|UNDECIDED|KNOWN|OK " | cut -c1-400
done
git -C /repo checkout -- .
# evidence and replay files written while a seed was applied do not describe the real tree: restore the previous ones
mkdir -p seeded-runs/$(basename $D); cp -f replays/*.json seeded-runs/$(basename $D)/ 2>/dev/null
rm -rf evidence replays; mv /tmp/evidence.keep.$$ evidence; mv /tmp/replays.keep.$$ replays
git -C /repo status --porcelain | head -3
