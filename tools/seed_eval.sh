#!/bin/bash
# usage: seed_eval.sh <seed-dir> [props...] : apply the seeded change to /repo, run checks, undo.
D=$1; shift
P=$(python3 -c "import json;print(json.load(open('$D/meta.json'))['property'])")
PROPS=${@:-$P C10}
cd /verif
[ -z "$(git -C /repo status --porcelain)" ] || { echo "/repo not clean"; exit 9; }
git -C /repo apply /verif/$D/patch.diff || exit 9
for p in $PROPS; do
  out=$(./check $p --tier quick 2>&1); rc=$?
  echo "--- $p rc=$rc"; echo "$out" | grep -E "VIOLATION|UNDECIDED|KNOWN|OK " | cut -c1-400
done
git -C /repo checkout -- .
git -C /repo status --porcelain | head -3
