#!/usr/bin/env python3
"""Bounded replay / search against the real code (wrapper around /verif/replay).

  replay.py search --property C05 [--seed N] [--limit K] [--tier quick|thorough]
  replay.py replay <replay-file.json>

Builds /verif/replay (path dependency on /repo/crates/uplc, so it is rebuilt from /repo's current working
tree by cargo's own dependency tracking) and runs the modes that serve the property.  Prints the tool's
FAILING-INPUT / BOUNDS / SUMMARY lines.  Exit: 0 nothing found, 1 failing input found, 3 tool unavailable
(does not build against the current tree).  Everything found here is a BOUNDED result, never a proof."""
import json
import os
import shutil
import subprocess
import sys

ROOT = os.path.dirname(os.path.dirname(os.path.abspath(__file__)))
CRATE = os.path.join(ROOT, 'replay')
BIN = os.path.join(CRATE, 'target', 'release', 'verif-replay')
# properties anchored in aiken-project use a second harness crate (heavier dependency tree, built only for them)
CRATE_P = os.path.join(ROOT, 'replayp')
BIN_P = os.path.join(CRATE_P, 'target', 'release', 'verif-replayp')
PROJECT_PROPS = {'C18', 'C09', 'C20'}
MODES = {
    'C02': ['optimizer'],
    'C03': ['cek', 'corpus'],
    'C04': ['builtins', 'datacodec'],
    'C05': ['budget', 'corpus', 'exmem'],
    'C10': ['nopanic', 'allbuiltins', 'builtins_np'],
    'C08': ['flat', 'datacodec'],
    'C11': ['debruijn', 'interner', 'named'],
    'C16': ['shrinker', 'proptest'],
    'C18': ['applyparam'],
    'C19': ['txsim'],
    'C09': ['determinism'],
    'C20': ['malformed', 'applyparam_np'],
}


def build(crate=None):
    CRATE = crate or globals()['CRATE']
    lock = os.path.join(CRATE, 'Cargo.lock')
    if not os.path.exists(lock):
        shutil.copy('/repo/Cargo.lock', lock)
    env = dict(os.environ)
    env['CARGO_NET_OFFLINE'] = 'true'
    p = subprocess.run(['cargo', 'build', '--release', '--offline'], cwd=CRATE, capture_output=True, text=True, env=env)
    if p.returncode != 0:
        sys.stderr.write(p.stderr[-3000:])
        return False
    return True


def main():
    if len(sys.argv) < 2:
        print(__doc__)
        sys.exit(2)
    args = sys.argv[2:]
    def opt(k, d):
        return args[args.index(k) + 1] if k in args else d
    pid = opt('--property', '')
    BIN = globals()['BIN']
    crate = CRATE
    if sys.argv[1] == 'replay':
        try:
            with open(sys.argv[2]) as f:
                pid = json.load(f).get('property', '')
        except (OSError, ValueError):
            pid = ''
    if pid in PROJECT_PROPS:
        crate, BIN = CRATE_P, BIN_P
    if not build(crate):
        print('REPLAY-UNAVAILABLE the replay tool does not build against the current tree')
        sys.exit(3)
    if sys.argv[1] == 'replay':
        sys.exit(subprocess.call([BIN, 'replay', sys.argv[2]]))
    modes = MODES.get(pid)
    if not modes:
        print('SUMMARY no bounded mode serves %s' % pid)
        sys.exit(0)
    limit = opt('--limit', '3')
    seed = opt('--seed', '0')
    tier = opt('--tier', 'quick')
    rc = 0
    seeds = [seed] if tier == 'quick' else [seed] + [str(int(seed) * 1000 + k) for k in range(1, 9)]
    for sd in seeds:
        p = subprocess.run([BIN, 'search', ','.join(modes), '--seed', sd, '--limit', limit], capture_output=True, text=True, timeout=3000)
        sys.stdout.write(p.stdout)
        if p.returncode == 1:
            rc = 1
            break
        if p.returncode not in (0, 1):
            sys.stderr.write(p.stderr[-2000:])
            print('REPLAY-UNAVAILABLE the replay tool crashed (rc=%d)' % p.returncode)
            sys.exit(3)
    sys.exit(rc)


if __name__ == '__main__':
    main()
