#!/usr/bin/env python3
"""Mechanical extractor + splicer.

Reads a contract template (`contracts/<unit>.vrs`), pulls the named items out of /repo's *current
working tree*, inserts the contract clauses / loop invariants / proof hints from the template, and
writes one Verus file plus a line map.  Function bodies are copied byte-for-byte; the only rewrites
are the transformations T1..T7 documented in DESIGN.md section 3.2, each of which is logged in the
map so the evidence can state exactly what was changed.

Exit codes of the CLI: 0 ok, 2 anchor loss (an item/loop/hint anchor named in the template was not
found, or found more than once).
"""
import hashlib
import json
import os
import re
import sys

sys.path.insert(0, os.path.dirname(os.path.abspath(__file__)))
import rustscan as rs  # noqa: E402

REPO = os.environ.get('VERIF_REPO', '/repo')
ROOT = os.path.dirname(os.path.dirname(os.path.abspath(__file__)))


class AnchorLoss(Exception):
    pass


_file_cache = {}


def read_repo(rel):
    p = os.path.join(REPO, rel)
    if p not in _file_cache:
        try:
            with open(p, encoding='utf-8') as f:
                _file_cache[p] = f.read()
        except OSError as e:
            raise AnchorLoss('cannot read %s: %s' % (rel, e))
    return _file_cache[p]


def select(rel, selector):
    """selector: 'impl Machine / fn spend_budget' ; returns (src, Item)."""
    s = read_repo(rel)
    scopes = [(0, len(s))]
    parts = [p.strip() for p in selector.split(' / ')]
    found = None
    for pi, part in enumerate(parts):
        mk = re.match(r'^([a-z_]+)\s*(.*)$', part, re.S)
        kind, name = mk.group(1), rs.norm(mk.group(2))
        cands = []
        for lo, hi in scopes:
            for it in rs.split_items(s, lo, hi):
                if it.kind != kind:
                    continue
                if kind == 'impl':
                    h = it.header
                    # allow selector without generics prefix
                    h2 = re.sub(r'^<[^>]*>', '', h)
                    if h == name or h2 == name:
                        cands.append(it)
                elif it.name == name:
                    cands.append(it)
        last = pi == len(parts) - 1
        if not cands:
            raise AnchorLoss('%s: `%s` not found (at `%s`)' % (rel, selector, part))
        if last:
            if len(cands) > 1:
                raise AnchorLoss('%s: `%s` is ambiguous (%d matches)' % (rel, selector, len(cands)))
            found = cands[0]
        else:
            scopes = []
            for it in cands:
                if it.body_open is None:
                    continue
                scopes.append((it.body_open + 1, it.end - 1))
    return s, found


# ---------------------------------------------------------------- transformations

CFG_TRUTH = {'target_family="wasm"': False, 'not(target_family="wasm")': True, 'test': False,
             'target_family = "wasm"': False, 'not(target_family = "wasm")': True}
KEEP_DERIVES_ALWAYS = {'PartialEq', 'Eq', 'Copy', 'Hash'}


def strip_attrs(text, log, keep_derive=True):
    """Remove every attribute and doc comment except #[repr] and a filtered #[derive].  Returns
    (new_text, had_clone_without_copy)."""
    out = []
    i = 0
    n = len(text)
    clone_no_copy = False
    while i < n:
        j = rs.skip_trivia_and_literals(text, i) if text[i] in '/"\'rb' else None
        if j is not None:
            if text.startswith('///', i) or text.startswith('//!', i):
                # drop doc comment (they are attributes)
                i = j
                continue
            out.append(text[i:j])
            i = j
            continue
        if text[i] == '#' and i + 1 < n and text[i + 1] in '[!':
            k = i + 1
            if text[k] == '!':
                k += 1
            if text[k] == '[':
                close = rs.match_close(text, k)
                attr = text[k + 1:close].strip()
                m = re.match(r'derive\s*\((.*)\)\s*$', attr, re.S)
                if m and keep_derive:
                    names = [x.strip() for x in m.group(1).split(',') if x.strip()]
                    short = [x.split('::')[-1] for x in names]
                    keep = [x for x in short if x in KEEP_DERIVES_ALWAYS]
                    if 'Clone' in short:
                        if 'Copy' in short:
                            keep.append('Clone')
                        else:
                            clone_no_copy = True
                    dropped = [x for x in short if x not in keep]
                    if dropped:
                        log.append('T3 derive(%s) -> derive(%s)' % (', '.join(short), ', '.join(keep)))
                    if keep:
                        out.append('#[derive(%s)]' % ', '.join(keep))
                elif attr.startswith('repr'):
                    out.append(text[i:close + 1])
                elif re.match(r'cfg\s*\(', attr):
                    pred = rs.norm(attr[attr.index('(') + 1:attr.rindex(')')])
                    truth = CFG_TRUTH.get(pred)
                    if truth is None:
                        raise AnchorLoss('unknown cfg predicate `%s`' % pred)
                    if truth:
                        log.append('cfg(%s) holds on this target: element kept' % pred)
                    else:
                        # drop the element the attribute is attached to: further attributes, then
                        # everything up to the next ',' at depth 0 (or the end of the enclosing block)
                        p2 = close + 1
                        depth = 0
                        endp = None
                        for j2, t2 in rs.tokens(text, p2):
                            if t2 == '#' and depth == 0:
                                continue
                            if t2 in '([{':
                                depth += 1
                            elif t2 in ')]}':
                                if depth == 0:
                                    endp = j2
                                    break
                                depth -= 1
                            elif t2 == ',' and depth == 0:
                                endp = j2 + 1
                                break
                        if endp is None:
                            endp = n
                        log.append('cfg(%s) is false on this target: element dropped' % pred)
                        i = endp
                        continue
                else:
                    log.append('attr dropped: #[%s]' % rs.norm(attr)[:60])
                i = close + 1
                continue
        out.append(text[i])
        i += 1
    return ''.join(out), clone_no_copy


MACRO_RE = re.compile(r'\b(format|eprintln|println|eprint|print|debug_assert|debug_assert_eq|dbg)!\s*\(')


def rewrite_macros(text, log):
    """T4: format!(..) -> verif_fmt() ; eprintln!/println!(..) -> () ; message args of
    unreachable!/panic!/expect are left alone (Verus accepts string literals there)."""
    out = []
    i = 0
    while True:
        m = None
        # search outside comments/strings
        for j, t in rs.tokens(text, i):
            if t in ('format', 'eprintln', 'println', 'eprint', 'print', 'dbg', 'debug_assert', 'debug_assert_eq'):
                mm = MACRO_RE.match(text, j)
                if mm:
                    m = mm
                    break
        if m is None:
            out.append(text[i:])
            break
        out.append(text[i:m.start()])
        open_i = m.end() - 1
        close = rs.match_close(text, open_i)
        name = m.group(1)
        if name == 'format':
            out.append('verif_fmt()')
            log.append('T4 format!(..) -> verif_fmt()')
        else:
            out.append('()')
            log.append('T4 %s!(..) -> ()' % name)
        i = close + 1
    return ''.join(out)


def unreachable_msgs(text, log):
    """T4: `unreachable!("..{x}..")`, `panic!("…", args)` -> drop the message (Verus rejects format
    args); the macro call itself, hence the reachability obligation, is kept."""
    out = []
    i = 0
    pat = re.compile(r'\b(unreachable|panic|todo|unimplemented)!\s*\(')
    while True:
        m = None
        for j, t in rs.tokens(text, i):
            if t in ('unreachable', 'panic', 'todo', 'unimplemented'):
                mm = pat.match(text, j)
                if mm:
                    m = mm
                    break
        if m is None:
            out.append(text[i:])
            break
        open_i = m.end() - 1
        close = rs.match_close(text, open_i)
        inner = text[open_i + 1:close].strip()
        out.append(text[i:m.start()])
        if inner:
            log.append('T4 %s!(<msg>) -> %s!()' % (m.group(1), m.group(1)))
        out.append('%s!()' % m.group(1))
        i = close + 1
    return ''.join(out)


def norm_vis(text, log):
    """T8: `pub(super)` / `pub(crate)` / `pub(in path)` -> `pub` (single-file crate has no parent module)."""
    new = re.sub(r'\bpub\s*\(\s*(?:super|crate|self|in\s+[\w:]+)\s*\)', 'pub', text)
    if new != text:
        log.append('T8 restricted visibility -> pub')
    return new


def pub_fields(text, log):
    """T8: private struct fields become `pub` (visibility only; single-module crate)."""
    m = re.search(r'\bstruct\s+[A-Za-z_]\w*\s*(<[^>{(;]*>)?\s*([({])', text)
    if not m:
        return text
    open_i = m.end() - 1
    close = rs.match_close(text, open_i)
    inner = text[open_i + 1:close]
    # split at top-level commas
    parts = []
    depth = 0
    last = 0
    for j, t in rs.tokens(inner):
        if t in '([{<':
            depth += 1
        elif t in ')]}>':
            depth -= 1
        elif t == ',' and depth == 0:
            parts.append(inner[last:j])
            last = j + 1
    parts.append(inner[last:])
    changed = False
    new_parts = []
    for part in parts:
        # find first token (skipping comments)
        first = None
        for j, t in rs.tokens(part):
            first = (j, t)
            break
        if first and first[1] != 'pub':
            part = part[:first[0]] + 'pub ' + part[first[0]:]
            changed = True
        new_parts.append(part)
    if changed:
        log.append('T8 private fields -> pub')
    return text[:open_i + 1] + ','.join(new_parts) + text[close:]


def raw_idents(text, log):
    """T11: raw identifiers `r#type` are alpha-renamed to `type_raw` (Verus 0.2026.09.13 crashes in model
    extraction on SMT symbols derived from raw identifiers)."""
    names = set(re.findall(r'\br#([A-Za-z_]\w*)', text))
    for nme in names:
        if re.search(r'\b%s_raw\b' % nme, text):
            raise AnchorLoss('raw identifier rename collides: %s_raw' % nme)
        text = re.sub(r'\br#%s\b' % nme, nme + '_raw', text)
        log.append('T11 raw identifier r#%s -> %s_raw' % (nme, nme))
    return text


def name_return(sig, log, rname='r'):
    """T1: `-> T` => `-> (r: T)` on a function signature (text up to, excluding, the body brace)."""
    # the return arrow is the `->` that directly follows the parameter list (not one inside a where clause)
    arrow = None
    toks = list(rs.tokens(sig))
    fn_seen = False
    for idx, (j, t) in enumerate(toks):
        if t == 'fn':
            fn_seen = True
        elif fn_seen and t == '(':
            close = rs.match_close(sig, j)
            rest_toks = [(jj, tt) for (jj, tt) in toks if jj > close]
            if len(rest_toks) >= 2 and rest_toks[0][1] == '-' and sig[rest_toks[0][0]:rest_toks[0][0] + 2] == '->':
                arrow = rest_toks[0][0]
            break
    if arrow is None:
        return sig
    rest = sig[arrow + 2:]
    # split off a where clause
    mw = None
    depth = 0
    for j, t in rs.tokens(rest):
        if t in '([{<':
            depth += 1
        elif t in ')]}>':
            depth -= 1
        elif t == 'where' and depth <= 0:
            mw = j
            break
    ty = rest if mw is None else rest[:mw]
    where = '' if mw is None else rest[mw:]
    if ty.strip().startswith('('+rname+':'):
        return sig
    log.append('T1 named return value')
    return sig[:arrow] + '-> (%s: %s) %s' % (rname, ty.strip(), where)


# ---------------------------------------------------------------- template processing

class Out:
    def __init__(self):
        self.lines = []
        self.map = []       # regions
        self.items = []     # extracted items metadata
        self.log = []
        self.obligations = []  # declared obligations
        self.assumptions = []
        self.lost_hints = []

    def emit(self, text, region=None):
        start = len(self.lines) + 1
        ls = text.split('\n')
        if ls and ls[-1] == '':
            ls = ls[:-1]
        self.lines.extend(ls)
        end = len(self.lines)
        if region is not None and end >= start:
            r = dict(region)
            r['start'] = start
            r['end'] = end
            self.map.append(r)
        return start, end


def split_clauses(text):
    """Split a requires/ensures block into (kind, clause_text, line_offset) at top-level commas."""
    res = []
    kind = None
    i = 0
    n = len(text)
    cur_start = None
    depth = 0
    toks = list(rs.tokens(text))
    idx = 0

    def flush(end):
        nonlocal cur_start
        if cur_start is not None:
            c = text[cur_start:end].strip()
            if c:
                res.append((kind, c, text.count('\n', 0, cur_start + (len(text[cur_start:end]) - len(text[cur_start:end].lstrip())))))
        cur_start = None

    while idx < len(toks):
        j, t = toks[idx]
        if depth == 0 and t in ('requires', 'ensures', 'decreases', 'invariant', 'invariant_except_break', 'recommends', 'no_unwind', 'opens_invariants', 'returns'):
            flush(j)
            kind = t
            cur_start = j + len(t)
        elif t in '([{':
            depth += 1
        elif t in ')]}':
            depth -= 1
        elif t == '|' :
            # closure / quantifier bars: forall|i: int, j: int| -- skip to matching bar
            # only treat as binder when previous token is forall/exists/choose or '(' / ',' ...
            prev = toks[idx - 1][1] if idx else ''
            if prev in ('forall', 'exists', 'choose'):
                k = idx + 1
                while k < len(toks) and toks[k][1] != '|':
                    k += 1
                idx = k
        elif t == ',' and depth == 0:
            flush(j)
            cur_start = j + 1
        idx += 1
    flush(n)
    return res


DIRECTIVE = re.compile(r'^\s*//@\s*(\w[\w-]*)\s*(.*)$')


def sha(s):
    return hashlib.sha256(s.encode()).hexdigest()[:16]


def line_of(s, idx):
    return s.count('\n', 0, idx) + 1


def gen_clone_impl(item_text):
    m = re.search(r'\b(struct|enum)\s+([A-Za-z_]\w*)\s*(<[^>{(;]*>)?', item_text)
    name = m.group(2)
    gens = m.group(3) or ''
    if gens:
        params = [g.strip() for g in gens[1:-1].split(',') if g.strip()]
        pnames = [p.split(':')[0].strip() for p in params]
        bounded = ['%s: Clone' % p if not p.startswith("'") else p for p in pnames]
        return ('impl<%s> Clone for %s<%s> {\n    #[verifier::external_body]\n    fn clone(&self) -> (r: Self)\n        ensures r == *self\n    { unimplemented!() }\n}\n'
                % (', '.join(bounded), name, ', '.join(pnames))), name
    return ('impl Clone for %s {\n    #[verifier::external_body]\n    fn clone(&self) -> (r: Self)\n        ensures r == *self\n    { unimplemented!() }\n}\n' % name), name


def process(template_path, out=None, unit=None, depth=0):
    out = out or Out()
    unit = unit or os.path.splitext(os.path.basename(template_path))[0]
    with open(template_path, encoding='utf-8') as f:
        tl = f.read().split('\n')
    i = 0
    n = len(tl)
    while i < n:
        line = tl[i]
        m = DIRECTIVE.match(line)
        if not m:
            out.emit(line + '\n')
            i += 1
            continue
        d, arg = m.group(1), m.group(2).strip()
        if d == 'include-context':
            # same as include, but the obligations of the included fragment belong to another unit: here they are context
            if not hasattr(out, 'included'):
                out.included = set()
            if arg not in out.included:
                out.included.add(arg)
                n0 = len(out.obligations)
                process(os.path.join(ROOT, 'contracts', arg), out, unit, depth + 1)
                for o in out.obligations[n0:]:
                    o['context'] = True
            i += 1
            continue
        if d == 'skip-include':
            # the unit provides its own version of a prelude fragment (e.g. a transparent model of a type that is opaque elsewhere)
            if not hasattr(out, 'included'):
                out.included = set()
            out.included.add(arg)
            i += 1
            continue
        if d == 'include':
            if not hasattr(out, 'included'):
                out.included = set()
            if arg not in out.included:      # include-once
                out.included.add(arg)
                process(os.path.join(ROOT, 'contracts', arg), out, unit, depth + 1)
            i += 1
            continue
        if d == 'assume':
            out.assumptions.append(arg)
            i += 1
            continue
        if d == 'lemma':
            # declares a named proof obligation living in the template: //@ lemma name
            out.obligations.append({'name': 'lemma/%s' % arg, 'kind': 'lemma', 'fn': arg})
            i += 1
            continue
        if d == 'item':
            # //@ item <file> :: <selector> [:: opts]
            bits = [b.strip() for b in re.split(r'\s+::\s+', arg, 2)]
            rel, sel = bits[0], bits[1]
            opts = bits[2].split() if len(bits) > 2 else []
            if not hasattr(out, 'emitted_items'):
                out.emitted_items = set()
            if (rel, sel) in out.emitted_items:      # item-once (fragments may name the same type)
                i += 1
                continue
            out.emitted_items.add((rel, sel))
            src, it = select(rel, sel)
            text = src[it.start:it.end]
            log = []
            text2, clone_nc = strip_attrs(text, log)
            text2 = rewrite_macros(text2, log)
            text2 = norm_vis(text2, log)
            if it.kind == 'struct':
                text2 = pub_fields(text2, log)
            if it.kind in ('struct', 'enum'):
                # T8: a private type becomes `pub` (visibility only)
                mvis = re.search(r'(?m)^(\s*)(struct|enum)\b', text2)
                if mvis and not re.search(r'\bpub\s+(struct|enum)\b', text2[:mvis.end()]):
                    text2 = text2[:mvis.start(2)] + 'pub ' + text2[mvis.start(2):]
                    log.append('T8 private type -> pub')
            for o in opts:
                if o.startswith('s/'):
                    _, a, b, _ = o.split('/')
                    if a not in text2:
                        raise AnchorLoss('%s: subst anchor `%s` missing in %s' % (unit, a, sel))
                    text2 = text2.replace(a, b)
                    log.append('T5 type subst %s -> %s' % (a, b))
            if 'noeq' in opts:
                # the unit supplies a specified `impl PartialEq` (structural equality as a TRUSTED contract) instead of the derive
                def _ne(m):
                    ds = [d.strip() for d in m.group(1).split(',') if d.strip() not in ('PartialEq', 'Eq', '')]
                    return '#[derive(%s)]' % ', '.join(ds) if ds else ''
                text2 = re.sub(r'#\[derive\(([^)]*)\)\]', _ne, text2)
                log.append('T3 derive(PartialEq, Eq) replaced by a specified impl in the template')
            for o in opts:
                if o.startswith('rrg='):
                    text2 = '#[verifier::reject_recursive_types_in_ground_variants(%s)]\n' % o[4:] + text2
                    log.append('T3 #[verifier::reject_recursive_types_in_ground_variants(%s)] added' % o[4:])
                if o.startswith('art='):
                    # verifier attribute only: the generic parameter may be instantiated with a type that contains this one
                    text2 = '#[verifier::accept_recursive_types(%s)]\n' % o[4:] + text2
                    log.append('T3 #[verifier::accept_recursive_types(%s)] added' % o[4:])
            meta = {'unit': unit, 'file': rel, 'selector': sel, 'src_line': line_of(src, it.kw),
                    'src_end_line': line_of(src, it.end), 'sha256': sha(text), 'transforms': log, 'role': 'type/item'}
            out.items.append(meta)
            out.emit('// ---- extracted: %s :: %s (lines %d-%d, sha %s)\n' % (rel, sel, meta['src_line'], meta['src_end_line'], meta['sha256']))
            out.emit(text2 + '\n', {'item': sel, 'kind': 'item', 'file': rel, 'src_line': line_of(src, it.start)})
            if clone_nc and 'noclone' not in opts:
                ci, nm = gen_clone_impl(text2)
                log.append('T3 spec Clone impl generated for %s (assumption A-clone)' % nm)
                out.assumptions.append('A-clone: derived Clone of %s is structural identity (external_body)' % nm)
                out.emit(ci)
            i += 1
            continue
        if d in ('fn', 'arm', 'closure', 'expr'):
            i = process_fn(tl, i, d, arg, out, unit)
            continue
        raise AnchorLoss('%s:%d unknown directive %s' % (template_path, i + 1, d))
    return out


def _unescape_sel(s):
    return s.replace(';;', '::')


def process_fn(tl, i, d, arg, out, unit):
    """//@ fn <file> :: <selector> [:: opts]   ... sections ... //@ end"""
    bits = [b.strip() for b in re.split(r'\s+::\s+', arg, 2)]
    rel, sel = bits[0], bits[1]
    opts = bits[2] if len(bits) > 2 else ''
    # collect sections
    sections = []  # (kind, arg, [lines])
    cur = ('spec', '', [])
    i += 1
    n = len(tl)
    while i < n:
        m = DIRECTIVE.match(tl[i])
        if m:
            dd, aa = m.group(1), m.group(2).strip()
            if dd == 'end':
                i += 1
                break
            sections.append(cur)
            cur = (dd, aa, [])
        else:
            cur[2].append(tl[i])
        i += 1
    sections.append(cur)

    armsel = None
    wrapper_sig = None
    closure_pat = None
    for k, a, ls in sections:
        if k == 'arm-pattern':
            armsel = a
        if k == 'closure-pattern':
            closure_pat = a
        if k == 'wrap':
            wrapper_sig = '\n'.join(ls)
    src, it = select(rel, sel)
    if it.body_open is None:
        raise AnchorLoss('%s: %s has no body' % (rel, sel))
    log = []
    fname = sel.split(' / ')[-1].split(' ', 1)[1]
    owner = ''
    for p in sel.split(' / ')[:-1]:
        if p.startswith('impl '):
            owner = p[5:].split(' for ')[-1].strip() + '::'
    qual = owner + fname
    if d == 'fn':
        sig = src[it.attrs_end:it.body_open]
        body = src[it.body_open:it.end]
        body_src_line = line_of(src, it.body_open)
        sig2 = name_return(norm_vis(sig, log), log)
        # T9: `_` parameters get a name (Verus requires identifiers)
        cnt = [0]
        def _nm(m):
            cnt[0] += 1
            return '%s_unused%d:' % (m.group(1), cnt[0])
        sig3 = re.sub(r'([(,]\s*)_\s*:', _nm, sig2)
        if sig3 != sig2:
            log.append('T9 `_` parameters named')
            sig2 = sig3
        sig2 = re.sub(r'^\s+', '', sig2)
    elif d == 'expr':
        # T15: one braced sub-expression of the selected function (a struct literal), starting right after the anchor,
        # wrapped as the body of a function whose signature comes from the template (free names become parameters)
        pat = next((a for k, a, ls in sections if k == 'expr-pattern'), None)
        if pat is None or wrapper_sig is None:
            raise AnchorLoss('%s: expr needs //@ expr-pattern and //@ wrap' % sel)
        fb = src[it.body_open:it.end]
        ms = list(re.finditer(pat, fb))
        if len(ms) != 1:
            raise AnchorLoss('%s: expr anchor `%s` matches %d times in %s' % (rel, pat, len(ms), sel))
        j = ms[0].end()
        bo = fb.find('{', j)
        if bo < 0:
            raise AnchorLoss('%s: no `{` after expr anchor `%s`' % (rel, pat))
        be = rs.match_close(fb, bo)
        body = '{\n' + fb[j:be + 1].strip() + '\n}'
        body_src_line = line_of(src, it.body_open + j)
        sig2 = wrapper_sig.strip() + ' '
        qual = qual + '#expr'
        log.append('T15 sub-expression after `%s` wrapped as a function' % pat)
    elif d == 'closure':
        # T12: the block body of a closure `<anchor>|params| { .. }` inside the selected function, wrapped as a
        # function whose signature (captured variables become parameters) comes from the template
        if closure_pat is None or wrapper_sig is None:
            raise AnchorLoss('%s: closure needs //@ closure-pattern and //@ wrap' % sel)
        fb = src[it.body_open:it.end]
        ms = list(re.finditer(closure_pat, fb))
        if len(ms) != 1:
            raise AnchorLoss('%s: closure anchor `%s` matches %d times in %s' % (rel, closure_pat, len(ms), sel))
        j = ms[0].end()
        mc = re.match(r'\s*(move\s+)?\|[^|]*\|\s*\{', fb[j:])
        if not mc:
            raise AnchorLoss('%s: no `|..| {` after closure anchor `%s` in %s' % (rel, closure_pat, sel))
        bo = j + mc.end() - 1
        be = rs.match_close(fb, bo)
        body = fb[bo:be + 1]
        body_src_line = line_of(src, it.body_open + bo)
        sig2 = wrapper_sig.strip() + ' '
        # //@ closure-params a b : the wrapper's parameters a, b stand for the closure's own parameters, in order; when the
        # source names them differently the TEMPLATE identifiers are renamed (the extracted body is never touched)
        cp = next((a for k, a, ls in sections if k == 'closure-params'), None)
        if cp:
            actual = [x.strip().split(':')[0].strip() for x in re.match(r'\s*(?:move\s+)?\|([^|]*)\|', fb[j:]).group(1).split(',') if x.strip()]
            ren = [(t, a) for t, a in zip(cp.split(), actual) if t != a and re.match(r'^[A-Za-z_]\w*$', a)]
            if ren:
                def _rn(txt):
                    for t, a in ren:
                        txt = re.sub(r'\b%s\b' % re.escape(t), a, txt)
                    return txt
                sig2 = _rn(sig2)
                sections = [(k, a, [_rn(l) for l in ls] if k in ('spec', 'top', 'before', 'after', 'loop') else ls) for k, a, ls in sections]
                log.append('closure parameters renamed in the template: %s' % ', '.join('%s->%s' % r_ for r_ in ren))
        qual = qual + '#closure:' + (next((a for k, a, ls in sections if k == 'name'), None) or 'c')
        log.append('T12 closure after `%s` wrapped as a function' % closure_pat)
    else:
        # match arm: wrapper signature comes from the template (T7)
        if armsel is None or wrapper_sig is None:
            raise AnchorLoss('%s: arm needs //@ arm-pattern and //@ wrap' % sel)
        fb = src[it.body_open:it.end]
        arm_body, off = find_arm(fb, armsel, rel, sel)
        body = arm_body if arm_body.lstrip().startswith('{') else '{\n' + arm_body + '\n}'
        if any(k == 'wrap-ok' for k, a, ls in sections):
            # the arm is the operand of an enclosing `Ok(match ..)`: keep that wrapper (T7)
            body = '{ Ok(' + body + ') }'
        body_src_line = line_of(src, it.body_open + off)
        sig2 = wrapper_sig.strip() + ' '
        qual = qual + '#' + armsel
        log.append('T7 match arm `%s` wrapped as a function' % armsel)
    raw_body = body
    body = rewrite_macros(body, log)
    body = unreachable_msgs(body, log)
    body = raw_idents(body, log)
    for k, a, ls in sections:
        if k in ('subst', 'subst-opt'):
            # //@ subst <from> => <to>  : type-level substitution, logged (T5)
            # //@ subst-opt ..           : same, but skipped when the anchor is absent (a closure annotation is only needed
            #                              while the closure is there; a rewritten body is then verified as it stands)
            a1, _, b1 = a.partition('=>')
            a1, b1 = a1.strip(), b1.strip()
            if a1 not in body and a1 not in sig2:
                if k == 'subst-opt':
                    log.append('subst-opt anchor `%s` absent: skipped' % a1)
                    continue
                raise AnchorLoss('%s/%s: subst anchor `%s` missing' % (unit, qual, a1))
            body = body.replace(a1, b1)
            sig2 = sig2.replace(a1, b1)
            log.append('T5 subst `%s` -> `%s`' % (a1, b1))

    for k, a, ls in sections:
        if k == 'desugar-ops':
            # T10: `x OP y` over the listed `&BigInt` identifiers -> the trait call it desugars to (Verus 0.2026.09.13
            # hits `codegen_select_candidate failed` on operator syntax over reference operands).
            names = '|'.join(re.escape(x) for x in a.split())
            opmap = {'+': 'core::ops::Add::add', '-': 'core::ops::Sub::sub', '*': 'core::ops::Mul::mul'}
            def _ds(m):
                return '%s(%s, %s)' % (opmap[m.group(2)], m.group(1), m.group(3))
            body2 = re.sub(r'(?<![\w.*&])(%s)\s*([+\-*])\s*(%s)(?![\w.(\[])' % (names, names), _ds, body)
            if body2 != body:
                log.append('T10 `a OP b` on &BigInt -> core::ops::<Trait>::<method>(a, b)')
                body = body2
    for k, a, ls in sections:
        if k == 'desugar-destructure':
            # T13: destructuring assignment `(a, b) = e;` -> `let (__a, __b) = e; a = __a; b = __b;`, the desugaring the
            # Rust reference gives for it (Verus 0.2026.09.13: "does not yet support ... destructuring assignment")
            def _dd(m):
                names = [x.strip() for x in m.group(2).split(',')]
                tmps = ['verif_tmp_' + x for x in names]
                return '%slet (%s) = %s; %s' % (m.group(1), ', '.join(tmps), m.group(3),
                                                 ' '.join('%s = %s;' % (x, t) for x, t in zip(names, tmps)))
            body2 = re.sub(r'(?m)^(\s*)\(([a-z_]\w*(?:\s*,\s*[a-z_]\w*)+)\)\s*=(?!=)\s*([^;]*);', _dd, body)
            if body2 != body:
              log.append('T13 destructuring assignment desugared (Rust reference desugaring)')
            body = body2
    for k, a, ls in sections:
        if k == 'desugar-letchain':
            body2 = desugar_letchains(body, unit, qual)
            if body2 != body:
              log.append('T14 let-chain `if a && let P = e {..}` (no else) -> nested `if`s')
            body = body2
    # ---- insertions into body (compute positions on the *current* body text)
    inserts = []  # (pos, text, tag)
    loops = rs.find_loops(body, 0, len(body))
    loop_alias = {}
    # `@LV<n>` in any section text stands for the variable of loop n (`for <ident> in ..`), so that renaming a loop
    # index in the source does not lose the invariant
    def _lv(m):
        li = int(m.group(1))
        if li >= len(loops):
            raise AnchorLoss('%s/%s: @LV%d: loop not found' % (unit, qual, li))
        mv = re.match(r'for\s+(?:mut\s+)?([A-Za-z_]\w*)\s+in\b', body[loops[li][0]:])
        if not mv:
            raise AnchorLoss('%s/%s: @LV%d: loop %d is not `for <ident> in`' % (unit, qual, li, li))
        return mv.group(1)
    sections = [(k, a, [re.sub(r'@LV(\d+)', _lv, l) for l in ls]) for k, a, ls in sections]
    nloop_sections = 0
    for k, a, ls in sections:
        txt = '\n'.join(ls).rstrip()
        if k == 'loop':
            nloop_sections += 1
            if a.startswith('~'):
                # `//@ loop ~<regex>`: the loop whose header matches; a loop that is gone only loses its invariant
                # (recorded), the function's own obligations then decide
                hits = [ix for ix, (kw, bo) in enumerate(loops) if re.search(a[1:].strip(), body[kw:bo])]
                if len(hits) != 1:
                    out.lost_hints.append({'fn': qual, 'anchor': 'loop ' + a})
                    continue
                li = hits[0]
                loop_alias[a] = li
            else:
                li = int(a)
                if li >= len(loops):
                    raise AnchorLoss('%s/%s: loop #%d not found (function has %d loops)' % (unit, qual, li, len(loops)))
            inserts.append((loops[li][1], '\n' + txt + '\n', 'loop#%s' % a))
        elif k == 'top':
            inserts.append((body.index('{') + 1, '\n' + txt + '\n', 'hint-top'))
        elif k in ('before', 'after'):
            alts = [x.strip() for x in a.split('||')]
            placed = False
            for alt in alts:
                mode = k
                pat = alt
                mm = re.match(r'^(before|after)\s+(.*)$', alt)
                if mm:
                    mode, pat = mm.group(1), mm.group(2)
                ms = list(re.finditer(pat, body))
                if len(ms) != 1:
                    continue
                mt = ms[0]
                if mode == 'before':
                    pos = body.rfind('\n', 0, mt.start()) + 1
                    inserts.append((pos, txt + '\n', 'hint'))
                else:
                    # end of the statement: first ';' at relative depth 0 after the match start
                    depth = 0
                    pos = None
                    for j, t in rs.tokens(body, mt.start()):
                        if t in '([{':
                            depth += 1
                        elif t in ')]}':
                            depth -= 1
                            if depth < 0:
                                pos = j
                                break
                            if depth == 0 and t == '}' :
                                # a block-statement (if/for) ends here when it started at match
                                nxt = body[j + 1:].lstrip()
                                if not nxt.startswith('else') and not nxt.startswith('.') and not nxt.startswith('?') and not nxt.startswith(';'):
                                    pos = j + 1
                                    break
                        elif t == ';' and depth == 0:
                            pos = j + 1
                            break
                    if pos is None:
                        continue
                    inserts.append((pos, '\n' + txt + '\n', 'hint'))
                placed = True
                break
            if not placed:
                out.lost_hints.append({'fn': qual, 'anchor': a})
        elif k in ('spec', 'arm-pattern', 'closure-pattern', 'wrap', 'subst', 'name', 'desugar-ops', 'wrap-ok', 'desugar-destructure', 'desugar-letchain', 'subst-opt', 'closure-params', 'expr-pattern'):
            pass
        else:
            raise AnchorLoss('unknown section %s in %s' % (k, qual))

    spec_txt = '\n'.join('\n'.join(ls) for k, a, ls in sections if k == 'spec').strip('\n')
    for k, a, ls in sections:
        if k == 'name':
            qual = a
    out.fn_counter = getattr(out, 'fn_counter', 0) + 1
    can = getattr(out, 'canary', False)
    if isinstance(can, tuple):
        can = (out.fn_counter % can[1]) == can[0]
    if can:
        # vacuity guard build: `assert(false)` must be refuted at the top of the body and of every annotated loop
        inserts.append((body.index('{') + 1, '\nassert(false); // CANARY %s/pre\n' % qual, 'canary'))
        for k, a, ls in sections:
            if k == 'loop':
                if a.startswith('~') and a not in loop_alias:
                    continue
                lix = loop_alias[a] if a.startswith('~') else int(a)
                inserts.append((loops[lix][1] + 1, '\nassert(false); // CANARY %s/loop#%s\n' % (qual, a), 'canary'))

    # ---- emit
    callees = sorted(set(m.group(1) for m in re.finditer(r'\b([A-Za-z_]\w*)\s*(?:::\s*<[^>()]*>\s*)?[(!]', raw_body))
                     - RUST_KEYWORDS)
    meta = {'unit': unit, 'fn': qual, 'callees': callees, 'file': rel, 'selector': sel, 'src_line': line_of(src, it.kw),
            'src_end_line': line_of(src, it.end), 'sha256': sha(raw_body), 'transforms': log, 'role': 'fn'}
    out.items.append(meta)
    out.emit('// ---- extracted: %s :: %s (lines %d-%d, body sha %s)\n' % (rel, sel, meta['src_line'], meta['src_end_line'], meta['sha256']))
    s0, e0 = out.emit(sig2.rstrip() + '\n', {'fn': qual, 'kind': 'sig', 'file': rel})
    # clauses, one region per clause
    clauses = split_clauses(spec_txt)
    # emit spec text as is, but register per-clause line spans
    spec_lines = spec_txt.split('\n') if spec_txt else []
    base = len(out.lines) + 1
    out.emit(spec_txt + '\n' if spec_txt else '', {'fn': qual, 'kind': 'clauses', 'file': rel})
    ens_idx = 0
    req_idx = 0
    # locate each clause's line span inside spec_txt
    search_from = 0
    for kind, ctext, _ in clauses:
        pos = spec_txt.find(ctext, search_from)
        search_from = pos + len(ctext)
        l0 = base + spec_txt.count('\n', 0, pos)
        l1 = base + spec_txt.count('\n', 0, pos + len(ctext))
        if kind == 'ensures':
            name = '%s/ensures#%d' % (qual, ens_idx)
            ens_idx += 1
            out.obligations.append({'name': name, 'kind': 'ensures', 'fn': qual, 'text': rs.norm(ctext)[:200], 'start': l0, 'end': l1})
        elif kind == 'requires':
            out.map.append({'fn': qual, 'kind': 'requires', 'idx': req_idx, 'start': l0, 'end': l1, 'text': rs.norm(ctext)[:200]})
            req_idx += 1
    out.obligations.append({'name': '%s/safety' % qual, 'kind': 'safety', 'fn': qual,
                            'text': 'no arithmetic overflow/underflow, no out-of-bounds index, no unwrap/expect on None/Err, no reachable panic!/unreachable!, callee preconditions, termination'})
    # body with insertions
    inserts = [x for _, x in sorted(enumerate(inserts), key=lambda t: (t[1][0], t[0]))]
    pieces = []
    last = 0
    body_start_line = len(out.lines) + 1
    cur_line = body_start_line
    src_cur = body_src_line
    for pos, txt, tag in inserts:
        seg = body[last:pos]
        pieces.append(('body', seg))
        pieces.append((tag, txt))
        last = pos
    pieces.append(('body', body[last:]))
    # emit piecewise so the map knows which lines are real code; merge text first then compute lines
    full = ''
    regions = []
    for tag, txt in pieces:
        start_off = len(full)
        full += txt
        regions.append((tag, start_off, len(full)))
    first_line = len(out.lines) + 1
    out.emit(full + '\n')
    consumed_src_nl = 0
    for tag, a, b in regions:
        l0 = first_line + full.count('\n', 0, a)
        l1 = first_line + full.count('\n', 0, max(a, b - 1))
        reg = {'fn': qual, 'kind': 'body' if tag == 'body' else tag, 'file': rel, 'start': l0, 'end': l1}
        if tag == 'body':
            reg['src_line'] = body_src_line + consumed_src_nl
            consumed_src_nl += full[a:b].count('\n')
        out.map.append(reg)
    if can:
        if not hasattr(out, 'canaries'):
            out.canaries = []
        for ln in range(first_line, len(out.lines) + 1):
            mm = re.search(r'// CANARY (\S+)$', out.lines[ln - 1])
            if mm:
                out.canaries.append({'name': mm.group(1), 'line': ln})
    for k, a, ls in sections:
        if k == 'loop':
            out.obligations.append({'name': '%s/loop#%s' % (qual, a), 'kind': 'loop', 'fn': qual,
                                    'text': rs.norm('\n'.join(ls))[:200]})
    return i


def desugar_letchains(body, unit, qual):
    """T14: `if c1 && let P = e && c3 { B }` with NO else branch  ->  `if c1 { if let P = e { if c3 { B } } }`.
    (Verus 0.2026.09.13 does not support let-chains.)  `&&` is short-circuit and the block has no else, so the nesting
    evaluates exactly the same conditions in the same order and runs B in exactly the same cases.  A chain with an
    else branch is left alone (the unit then fails to compile: undecided)."""
    out = body
    guard = 0
    while True:
        guard += 1
        if guard > 50:
            break
        toks = list(rs.tokens(out))
        done = True
        for idx, (j, t) in enumerate(toks):
            if t != 'if':
                continue
            # header: up to the first '{' at depth 0
            depth = 0
            k = idx + 1
            hb = None
            while k < len(toks):
                kk, tt = toks[k]
                if tt in '([':
                    depth += 1
                elif tt in ')]':
                    depth -= 1
                elif tt == '{' and depth == 0:
                    hb = kk
                    break
                k += 1
            if hb is None:
                continue
            header = out[j + 2:hb]
            # split on top-level &&
            parts = []
            depth = 0
            last = 0
            htoks = list(rs.tokens(header))
            for (pj, pt) in htoks:
                if pt in '([{':
                    depth += 1
                elif pt in ')]}':
                    depth -= 1
            # manual scan for '&&' at depth 0 (the lexer yields single chars for punctuation)
            depth = 0
            i2 = 0
            cuts = []
            for (pj, pt) in htoks:
                if pt in '([{':
                    depth += 1
                elif pt in ')]}':
                    depth -= 1
                elif pt == '&' and depth == 0 and header[pj:pj + 2] == '&&' and (pj == 0 or header[pj - 1] != '&'):
                    cuts.append(pj)
            if not cuts:
                continue
            parts = []
            prev = 0
            for c in cuts:
                parts.append(header[prev:c].strip())
                prev = c + 2
            parts.append(header[prev:].strip())
            if not any(re.match(r'^let\b', p_) for p_ in parts):
                continue
            be = rs.match_close(out, hb)
            after = out[be + 1:].lstrip()
            if after.startswith('else'):
                continue
            blk = out[hb:be + 1]
            nested = ''
            for p_ in parts:
                nested += 'if %s { ' % p_
            nested = nested[:-2] + blk + ' }' * (len(parts) - 1)
            out = out[:j] + nested + out[be + 1:]
            done = False
            break
        if done:
            break
    return out


RUST_KEYWORDS = {'if', 'while', 'for', 'match', 'return', 'loop', 'fn', 'let', 'in', 'as', 'move', 'else', 'Some', 'None', 'Ok', 'Err',
                 'Box', 'Vec', 'Rc', 'vec', 'matches', 'format', 'panic', 'unreachable', 'todo', 'assert', 'debug_assert', 'Self', 'self'}


def find_arm(fb, pattern, rel, sel):
    """Find `pattern =>` in function body text fb; return (arm_body_text, offset)."""
    pat_norm = rs.norm(pattern)
    hits = []
    toks = list(rs.tokens(fb))
    for idx, (j, t) in enumerate(toks):
        if t == '=' and fb[j:j + 2] == '=>':
            # walk back to the start of the pattern: previous ',' '{' or '}' at same depth
            k = idx - 1
            depth = 0
            startj = None
            while k >= 0:
                jj, tt = toks[k]
                if tt in ')]}':
                    # a `}` directly before `=>` closes a struct pattern; any other `}` at depth 0 ends the previous arm
                    if depth == 0 and tt == '}' and k != idx - 1:
                        startj = jj + 1
                        break
                    depth += 1
                elif tt in '([{':
                    if depth == 0:
                        startj = jj + 1
                        break
                    depth -= 1
                elif tt == ',' and depth == 0:
                    startj = jj + 1
                    break
                k -= 1
            if startj is None:
                continue
            ptxt = rs.norm(fb[startj:j])
            if ptxt == pat_norm:
                hits.append((j + 2, idx))
    if len(hits) != 1:
        raise AnchorLoss('%s: arm `%s` of %s found %d times' % (rel, pattern, sel, len(hits)))
    pos, idx = hits[0]
    # arm body: block or expr until ',' at depth 0 / closing brace of the match
    k = idx + 2  # tokens after '=' '>'
    # skip '>' token
    while toks[k][0] < pos:
        k += 1
    j0, t0 = toks[k]
    if t0 == '{':
        close = rs.match_close(fb, j0)
        return fb[j0:close + 1], j0
    depth = 0
    endj = None
    while k < len(toks):
        jj, tt = toks[k]
        if tt in '([{':
            depth += 1
        elif tt in ')]}':
            if depth == 0:
                endj = jj
                break
            depth -= 1
        elif tt == ',' and depth == 0:
            endj = jj
            break
        k += 1
    return fb[j0:endj].rstrip(), j0


def scan_assumptions(text):
    """Mechanical scan of the assembled file for every unchecked assumption."""
    found = []
    for ln, l in enumerate(text.split('\n'), 1):
        s = l.strip()
        if s.startswith('//'):
            continue
        for kw in ('assume_specification', 'external_body', 'assume(', 'admit(', 'external_type_specification',
                   'exec_allows_no_decreases_clause', 'external_fn_specification', '#[verifier::external]', 'axiom'):
            if kw in s:
                found.append({'line': ln, 'kind': kw.rstrip('('), 'text': s[:160]})
                break
    return found


def main():
    import argparse
    ap = argparse.ArgumentParser()
    ap.add_argument('template')
    ap.add_argument('-o', '--out', required=True)
    a = ap.parse_args()
    try:
        o = process(a.template)
    except (AnchorLoss, rs.ScanError) as e:
        print('ANCHOR-LOSS: %s' % e, file=sys.stderr)
        sys.exit(2)
    text = '\n'.join(o.lines) + '\n'
    with open(a.out, 'w') as f:
        f.write(text)
    meta = {'map': o.map, 'items': o.items, 'obligations': o.obligations, 'assumptions_declared': o.assumptions,
            'assumptions_scanned': scan_assumptions(text), 'lost_hints': o.lost_hints}
    with open(os.path.splitext(a.out)[0] + '.map.json', 'w') as f:
        json.dump(meta, f, indent=1)
    print('wrote %s (%d lines, %d items, %d obligations, %d lost hints)' % (a.out, len(o.lines), len(o.items), len(o.obligations), len(o.lost_hints)))


if __name__ == '__main__':
    main()
