#!/bin/bash
# usage: confirm_seed.sh <worktree> <change-dir> ; confirms a seeded change against /repo's HEAD
# 1. demo passes on clean HEAD  2. demo fails with patch  3. full suite passes with patch (no demo)
set -u
WT=$1; CH=$2; LOG=$CH/confirm.log
HEAD=$(git -C /repo rev-parse HEAD)
cd $WT || exit 9
git reset -q --hard; git clean -fdq -e target
git checkout -q --detach $HEAD || exit 9
: > $LOG
echo "HEAD=$HEAD" >> $LOG
git apply --3way $CH/demo.diff >> $LOG 2>&1 || { echo "RESULT demo-does-not-apply" | tee -a $LOG; exit 1; }
DEMO=$(grep -h '^+++ b/' $CH/demo.diff | sed 's|+++ b/||' | head -1)
CRATE=$(echo $DEMO | cut -d/ -f2)
TESTNAME=$(basename $DEMO .rs)
if echo $DEMO | grep -qE '^crates/[^/]+/tests/'; then DEMOCMD="cargo test -p $CRATE --offline --test $TESTNAME"; else DEMOCMD="cargo test -p $CRATE --offline --lib"; fi
echo "demo cmd: $DEMOCMD" >> $LOG
$DEMOCMD >> $LOG 2>&1; A=$?
echo "demo on clean HEAD rc=$A" >> $LOG
git apply --3way $CH/patch.diff >> $LOG 2>&1 || { echo "RESULT patch-does-not-apply" | tee -a $LOG; git reset -q --hard; git clean -fdq -e target; exit 1; }
git diff HEAD -- . ":(exclude)$DEMO" > $CH/patch.rebased.diff
$DEMOCMD >> $LOG 2>&1; B=$?
echo "demo with patch rc=$B" >> $LOG
# remove the demo, keep the patch, run full suite
git reset -q; git apply -R $CH/demo.diff >> $LOG 2>&1 || rm -f $DEMO
cargo nextest run --workspace --no-fail-fast --offline --test-threads 6 > $CH/suite.log 2>&1; C=$?
tail -3 $CH/suite.log >> $LOG
echo "suite with patch rc=$C" >> $LOG
git reset -q --hard; git clean -fdq -e target
if [ $A -eq 0 ] && [ $B -ne 0 ] && [ $C -eq 0 ]; then echo "RESULT confirmed" | tee -a $LOG; else echo "RESULT NOT-confirmed A=$A B=$B C=$C" | tee -a $LOG; fi
