//! Kani harnesses on the REAL `uplc` crate (path dependency on /repo/crates/uplc: no extraction).
//! Every harness here is loop-free over the FULL domain of its primitive inputs, so a successful run is a
//! complete proof for that function (not a bounded stand-in).  `kani::cover!` guards against vacuity.
#![allow(dead_code)]

/// (arity, number of type-level forces) of every builtin, indexed by its flat tag; transcribed from the
/// builtin signatures of the Plutus Core specification (number of term arguments, number of `forall`s).
/// 255 = no builtin has this tag.
pub const N: (u8, u8) = (255, 255);
pub const SPEC: [(u8, u8); 128] = {
    let mut t = [N; 128];
    // integers
    t[0] = (2, 0); t[1] = (2, 0); t[2] = (2, 0); t[3] = (2, 0); t[4] = (2, 0); t[5] = (2, 0); t[6] = (2, 0);
    t[7] = (2, 0); t[8] = (2, 0); t[9] = (2, 0);
    // byte strings
    t[10] = (2, 0); t[11] = (2, 0); t[12] = (3, 0); t[13] = (1, 0); t[14] = (2, 0); t[15] = (2, 0); t[16] = (2, 0); t[17] = (2, 0);
    // hashes, signature
    t[18] = (1, 0); t[19] = (1, 0); t[20] = (1, 0); t[21] = (3, 0);
    // strings
    t[22] = (2, 0); t[23] = (2, 0); t[24] = (1, 0); t[25] = (1, 0);
    // ifThenElse : forall a. bool -> a -> a -> a ; chooseUnit : forall a. unit -> a -> a ; trace : forall a. string -> a -> a
    t[26] = (3, 1); t[27] = (2, 1); t[28] = (2, 1);
    // fstPair/sndPair : forall a b. pair a b -> _ ; chooseList : forall a b. list a -> b -> b -> b
    t[29] = (1, 2); t[30] = (1, 2); t[31] = (3, 2);
    // mkCons, headList, tailList, nullList : forall a.
    t[32] = (2, 1); t[33] = (1, 1); t[34] = (1, 1); t[35] = (1, 1);
    // chooseData : forall a. data -> a -> a -> a -> a -> a -> a
    t[36] = (6, 1);
    // data
    t[37] = (2, 0); t[38] = (1, 0); t[39] = (1, 0); t[40] = (1, 0); t[41] = (1, 0); t[42] = (1, 0); t[43] = (1, 0);
    t[44] = (1, 0); t[45] = (1, 0); t[46] = (1, 0); t[47] = (2, 0); t[48] = (2, 0); t[49] = (1, 0); t[50] = (1, 0); t[51] = (1, 0);
    // secp256k1
    t[52] = (3, 0); t[53] = (3, 0);
    // BLS12-381
    t[54] = (2, 0); t[55] = (1, 0); t[56] = (2, 0); t[57] = (2, 0); t[58] = (1, 0); t[59] = (1, 0); t[60] = (2, 0);
    t[61] = (2, 0); t[62] = (1, 0); t[63] = (2, 0); t[64] = (2, 0); t[65] = (1, 0); t[66] = (1, 0); t[67] = (2, 0);
    t[68] = (2, 0); t[69] = (2, 0); t[70] = (2, 0);
    // more hashes
    t[71] = (1, 0); t[72] = (1, 0);
    // conversions and bitwise
    t[73] = (3, 0); t[74] = (2, 0); t[75] = (3, 0); t[76] = (3, 0); t[77] = (3, 0); t[78] = (1, 0); t[79] = (2, 0); t[80] = (3, 0);
    t[81] = (2, 0); t[82] = (2, 0); t[83] = (2, 0); t[84] = (1, 0); t[85] = (1, 0); t[86] = (1, 0);
    // expModInteger ; dropList : forall a. integer -> list a -> list a
    t[87] = (3, 0); t[88] = (2, 1);
    // multiScalarMul
    t[92] = (2, 0); t[93] = (2, 0);
    t
};

/// builtins whose denotation is commutative in its two arguments (spec): addInteger, multiplyInteger, equals*,
/// BLS G1/G2 add and equal
pub const fn commutative(tag: u8) -> bool {
    matches!(tag, 0 | 2 | 7 | 15 | 23 | 47 | 54 | 57 | 61 | 64)
}

#[cfg(kani)]
mod proofs {
    use super::*;
    use pallas_primitives::conway::Language;
    use uplc::builtins::DefaultFunction;
    use uplc::machine::cost_model::*;
    use uplc::machine::runtime::{convert_constr_to_tag, convert_tag_to_constr, BuiltinSemantics};

    fn fmt_stub(_args: std::fmt::Arguments<'_>) -> String {
        String::new()
    }

    #[kani::proof]
    fn warmup() {
        let x: u8 = kani::any();
        assert!(x as u16 <= 255);
    }

    /// U04b/U08: constructor index <-> CBOR tag codec of Data, all u64
    #[kani::proof]
    fn k_tag_codec() {
        let c: u64 = kani::any();
        match convert_constr_to_tag(c) {
            Some(tag) => {
                assert!(c <= 127);
                assert!(if c <= 6 { tag == 121 + c } else { tag == 1280 + (c - 7) });
                assert!(convert_tag_to_constr(tag) == Some(c));
            }
            None => assert!(c > 127),
        }
        let t: u64 = kani::any();
        match convert_tag_to_constr(t) {
            Some(c) => {
                assert!((121 <= t && t <= 127) || (1280 <= t && t <= 1400));
                // tags 1280..=1400 are the compact encoding of constructors 7..=127
                assert!(c == if t <= 127 { t - 121 } else { t - 1280 + 7 });
                assert!(convert_constr_to_tag(c) == Some(t));
            }
            None => assert!(!((121 <= t && t <= 127) || (1280 <= t && t <= 1400))),
        }
        kani::cover!(convert_constr_to_tag(c).is_some());
        kani::cover!(convert_tag_to_constr(t).is_none());
    }

    /// U04c: ledger table of builtin semantics variants, all (language, protocol version)
    #[kani::proof]
    fn k_semantics() {
        let pv: u16 = kani::any();
        let l: u8 = kani::any();
        kani::assume(l < 3);
        let lang = if l == 0 { Language::PlutusV1 } else if l == 1 { Language::PlutusV2 } else { Language::PlutusV3 };
        let s = BuiltinSemantics::for_language_and_protocol(&lang, pv);
        let expect = if l < 2 {
            if pv >= 11 { BuiltinSemantics::D } else if pv >= 9 { BuiltinSemantics::B } else { BuiltinSemantics::A }
        } else if pv >= 11 {
            BuiltinSemantics::E
        } else {
            BuiltinSemantics::C
        };
        assert!(s == expect);
        // the language-only entry points select the newest variant of the language
        let s0 = BuiltinSemantics::for_language(&lang);
        assert!(s0 == if l < 2 { BuiltinSemantics::D } else { BuiltinSemantics::E });
        // strings are costed by UTF-8 bytes from protocol version 11 on
        assert!(s.costs_strings_by_utf8_bytes() == (pv >= 11));
        kani::cover!(s == BuiltinSemantics::A);
        kani::cover!(s == BuiltinSemantics::E);
    }

    /// U08a: builtin tag table: decode(t) = f  =>  encode(f) = t, t fits the 7-bit tag width; and the table is total on the spec
    #[kani::proof]
    #[kani::stub(alloc::fmt::format, fmt_stub)]
    fn k_builtin_tag() {
        let t: u8 = kani::any();
        match DefaultFunction::try_from(t) {
            Ok(f) => {
                assert!(f as u8 == t);
                assert!(t < 128);
                assert!(SPEC[t as usize].0 != 255);
            }
            Err(_) => assert!(t >= 128 || SPEC[t as usize].0 == 255),
        }
        kani::cover!(DefaultFunction::try_from(t).is_ok());
        kani::cover!(DefaultFunction::try_from(t).is_err());
    }

    /// U03c: arity and force count of every builtin = its signature in the specification
    #[kani::proof]
    #[kani::stub(alloc::fmt::format, fmt_stub)]
    fn k_arity_forces() {
        let t: u8 = kani::any();
        kani::assume(t < 128);
        if let Ok(f) = DefaultFunction::try_from(t) {
            assert!(f.arity() == SPEC[t as usize].0 as usize);
            assert!(f.force_count() == SPEC[t as usize].1 as u32);
            kani::cover!(f.force_count() == 2);
        }
    }

    /// U02a: side conditions of the optimiser's builtin rewrites
    #[kani::proof]
    #[kani::stub(alloc::fmt::format, fmt_stub)]
    fn k_optimizer_tables() {
        let t: u8 = kani::any();
        kani::assume(t < 128);
        if let Ok(f) = DefaultFunction::try_from(t) {
            // arguments may be swapped only for commutative builtins
            if f.is_order_agnostic_builtin() {
                assert!(commutative(t));
                assert!(SPEC[t as usize].0 == 2);
            }
            // curried builtins take two or more arguments and no force
            if f.can_curry_builtin() {
                assert!(SPEC[t as usize].0 >= 2);
                assert!(SPEC[t as usize].1 == 0);
            }
            kani::cover!(f.is_order_agnostic_builtin());
            kani::cover!(f.can_curry_builtin());
        }
    }

    /// U05b cross-check on the real crate: saturating linear shape, ALL i64 coefficients and sizes
    #[kani::proof]
    fn k_linear_sat() {
        let x: i64 = kani::any();
        let y: i64 = kani::any();
        let i: i64 = kani::any();
        let s: i64 = kani::any();
        let c = TwoArguments::LinearInX(LinearSize { intercept: i, slope: s });
        let r = c.cost(x, y);
        let m = (s as i128) * (x as i128);
        let m = if m > i64::MAX as i128 { i64::MAX as i128 } else if m < i64::MIN as i128 { i64::MIN as i128 } else { m };
        let a = m + i as i128;
        let a = if a > i64::MAX as i128 { i64::MAX as i128 } else if a < i64::MIN as i128 { i64::MIN as i128 } else { a };
        assert!(r as i128 == a);
    }
}
